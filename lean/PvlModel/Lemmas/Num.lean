import PvlModel.Model.Encoder

/-! Decimal spellings: what the encoders write for an integer is read back as that integer by
    `int(s, 10)` as modelled in `PyNum`. -/
namespace Pvl
open Py Enc

/-- every character is an ASCII digit -/
def AllDigits (s : Str) : Prop := ∀ c ∈ s, isDigit c = true

theorem allDigits_natStr (n : Nat) : AllDigits (natStr n) := by
  intro c hc
  simp only [natStr, Nat.toString_eq_repr, Nat.toList_repr, List.mem_map] at hc
  obtain ⟨ch, hch, rfl⟩ := hc
  have := Nat.isDigit_of_mem_toDigits (b := 10) (by omega) (by omega) hch
  rw [Char.isDigit_iff_toNat] at this
  simp only [isDigit, Bool.and_eq_true, decide_eq_true_eq]
  exact this

theorem natStr_ne_nil (n : Nat) : natStr n ≠ [] := by
  simp [natStr, Nat.toDigits_ne_nil]

theorem toAsciiNum_of_ascii (s : Str) (h : ∀ c ∈ s, c < 128) : toAsciiNum s = s := by
  unfold toAsciiNum
  conv => rhs; rw [← List.map_id s]
  apply List.map_congr_left
  intro c hc
  simp [h c hc]

theorem dropWhile_of_head (p : Nat → Bool) (s : Str) (h : ∀ c ∈ s.head?, p c = false) :
    s.dropWhile p = s := by
  cases s with
  | nil => rfl
  | cons a r => simp [List.dropWhile, h a (by simp)]

/-- `strip()` leaves a string alone whose first and last characters are not blanks -/
theorem cstrip_id (s : Str) (h1 : ∀ c ∈ s.head?, cSpace c = false) (h2 : ∀ c ∈ s.getLast?, cSpace c = false) :
    cstrip s = s := by
  unfold cstrip
  rw [dropWhile_of_head _ s h1, dropWhile_of_head _ s.reverse (by simpa using h2)]
  simp

theorem digit_facts (c : Nat) (h : isDigit c = true) :
    c < 128 ∧ cSpace c = false ∧ c ≠ 95 ∧ c ≠ 43 ∧ c ≠ 45 ∧ digitValue c = c - 48 ∧ c - 48 < 10 := by
  simp only [isDigit, Bool.and_eq_true, decide_eq_true_eq] at h
  refine ⟨by omega, ?_, by omega, by omega, by omega, ?_, by omega⟩
  · simp [cSpace]; omega
  · simp [digitValue, h.1, h.2]

/-- value of a digit string, most significant first -/
def digitsVal (s : Str) (acc : Nat) : Nat := s.foldl (fun a c => a * 10 + (c - 48)) acc

theorem scanDigits_digits (s : Str) (h : AllDigits s) (acc : Nat) (any : Bool) (hne : s ≠ [] ∨ any = true) :
    scanDigits 10 s acc false any = some (digitsVal s acc) := by
  induction s generalizing acc any with
  | nil => simp at hne; simp [scanDigits, digitsVal, hne]
  | cons c r ih =>
    have hc := digit_facts c (h c (by simp))
    unfold scanDigits
    have h95 : (c == 95) = false := by simp [hc.2.2.1]
    simp only [h95, Bool.false_eq_true, if_false]
    have hlt : digitValue c < 10 := by rw [hc.2.2.2.2.2.1]; exact hc.2.2.2.2.2.2
    simp only [hlt, if_true]
    rw [ih (fun x hx => h x (by simp [hx])) _ true (Or.inr rfl)]
    simp [digitsVal, hc.2.2.2.2.2.1]

theorem digitsVal_natStr (n : Nat) : digitsVal (natStr n) 0 = n := by
  have h := Nat.ofDigitChars_ten_toDigits (n := n)
  rw [Nat.ofDigitChars_eq_foldl] at h
  simp only [digitsVal, natStr, Nat.toString_eq_repr, Nat.toList_repr, List.foldl_map]
  refine Eq.trans ?_ h
  congr 1
  funext a c
  simp [Nat.mul_comm]

theorem head_getLast_of_all {p : Nat → Prop} (s : Str) (h : ∀ c ∈ s, p c) :
    (∀ c ∈ s.head?, p c) ∧ (∀ c ∈ s.getLast?, p c) := by
  refine ⟨fun c hc => h c (List.mem_of_mem_head? hc), fun c hc => h c (List.mem_of_mem_getLast? hc)⟩

/-- **`int(str(n)) = n`** in the model of CPython's `int()` -/
theorem int10_natStr (n : Nat) : int10 (natStr n) = some (n : Int) := by
  have hd := allDigits_natStr n
  have hascii : ∀ c ∈ natStr n, c < 128 := fun c hc => (digit_facts c (hd c hc)).1
  have hsp : ∀ c ∈ natStr n, cSpace c = false := fun c hc => (digit_facts c (hd c hc)).2.1
  obtain ⟨hh, hl⟩ := head_getLast_of_all (p := fun c => cSpace c = false) _ hsp
  unfold int10
  rw [toAsciiNum_of_ascii _ hascii, cstrip_id _ hh hl]
  have hsplit : splitSign (natStr n) = (false, natStr n) := by
    cases hs : natStr n with
    | nil => exact absurd hs (natStr_ne_nil n)
    | cons c r =>
      have hc := digit_facts c (hd c (by simp [hs]))
      unfold splitSign
      split
      · rename_i heq; simp at heq; omega
      · rename_i heq; simp at heq; omega
      · rfl
  simp only [hsplit]
  rw [scanDigits_digits _ hd 0 false (Or.inl (natStr_ne_nil n)), digitsVal_natStr]
  simp

/-- a minus sign in front of the digits -/
theorem int10_neg_natStr (n : Nat) : int10 (45 :: natStr n) = some (-(n : Int)) := by
  have hd := allDigits_natStr n
  have hascii : ∀ c ∈ (45 :: natStr n), c < 128 := by
    intro c hc
    rcases List.mem_cons.mp hc with rfl | hc
    · omega
    · exact (digit_facts c (hd c hc)).1
  have hsp : ∀ c ∈ (45 :: natStr n), cSpace c = false := by
    intro c hc
    rcases List.mem_cons.mp hc with rfl | hc
    · decide
    · exact (digit_facts c (hd c hc)).2.1
  obtain ⟨hh, hl⟩ := head_getLast_of_all (p := fun c => cSpace c = false) _ hsp
  unfold int10
  rw [toAsciiNum_of_ascii _ hascii, cstrip_id _ hh hl]
  simp only [splitSign]
  rw [scanDigits_digits _ hd 0 false (Or.inl (natStr_ne_nil n)), digitsVal_natStr]
  simp

end Pvl

namespace Pvl
open Py Enc

/-! ### the integer spelling passes the decoder cascade untouched -/

/-- characters an integer spelling is made of: ASCII digits and `-` -/
def NumCh (c : Nat) : Prop := isDigit c = true ∨ c = 45

theorem intStr_ofNat (n : Nat) : intStr (n : Int) = natStr n := by
  simp [intStr, natStr, Int.repr_eq_if]

theorem intStr_negSucc (n : Nat) : intStr (Int.negSucc n) = 45 :: natStr (n + 1) := by
  have h : ¬ (0 : Int) ≤ Int.negSucc n := by omega
  have h2 : (-(Int.negSucc n)).toNat = n + 1 := by omega
  simp only [intStr, natStr, Int.toString_eq_repr, Int.repr_eq_if, h, if_false, h2, Nat.toString_eq_repr,
    String.toList_append, List.map_append]
  rfl

theorem numCh_intStr (i : Int) : ∀ c ∈ intStr i, NumCh c := by
  intro c hc
  cases i with
  | ofNat n =>
    rw [show Int.ofNat n = (n : Int) from rfl, intStr_ofNat] at hc
    exact Or.inl (allDigits_natStr n c hc)
  | negSucc n =>
    rw [intStr_negSucc] at hc
    rcases List.mem_cons.mp hc with rfl | hc
    · exact Or.inr rfl
    · exact Or.inl (allDigits_natStr _ c hc)

theorem intStr_ne_nil (i : Int) : intStr i ≠ [] := by
  cases i with
  | ofNat n => rw [show Int.ofNat n = (n : Int) from rfl, intStr_ofNat]; exact natStr_ne_nil n
  | negSucc n => rw [intStr_negSucc]; simp

/-- **`int(str(i)) = i`** for every integer -/
theorem int10_intStr (i : Int) : int10 (intStr i) = some i := by
  cases i with
  | ofNat n => rw [show Int.ofNat n = (n : Int) from rfl, intStr_ofNat]; exact int10_natStr n
  | negSucc n =>
    rw [intStr_negSucc, int10_neg_natStr]
    congr 1

end Pvl

namespace Pvl
open Py Enc

theorem numCh_cases (c : Nat) (h : NumCh c) :
    c = 45 ∨ c = 48 ∨ c = 49 ∨ c = 50 ∨ c = 51 ∨ c = 52 ∨ c = 53 ∨ c = 54 ∨ c = 55 ∨ c = 56 ∨ c = 57 := by
  rcases h with h | h
  · simp only [isDigit, Bool.and_eq_true, decide_eq_true_eq] at h; omega
  · omega

/-- digits and `-` fold outside the keyword alphabet -/
theorem casefold_numCh (c : Nat) (h : NumCh c) (r : Str) : casefold (c :: r) = 0x110000 :: casefold r := by
  have hf : Gen.pyCasefold.find? (fun p => p.1 == c) = none := by
    rcases numCh_cases c h with rfl | rfl | rfl | rfl | rfl | rfl | rfl | rfl | rfl | rfl | rfl <;> decide
  simp [casefold, List.flatMap_cons, hf]

/-- what the integer lemmas need of a grammar table: the three keywords fold inside the keyword alphabet
    and no quotation mark is a digit or `-` (checked by evaluation for the five generated tables) -/
def NumSafe (g : Grammar) : Bool :=
  [g.noneKw, g.trueKw, g.falseKw].all (fun kw => (casefold kw).head? != some 0x110000) &&
  g.quotes.all (fun q => !isDigit q && q != 45)

theorem foldEq_num_kw (s kw : Str) (hs : s ≠ []) (hn : ∀ c ∈ s, NumCh c)
    (hk : ((casefold kw).head? != some 0x110000) = true) : foldEq s kw = false := by
  cases s with
  | nil => exact absurd rfl hs
  | cons c r =>
    unfold foldEq
    rw [casefold_numCh c (hn c (by simp))]
    cases hkw : casefold kw with
    | nil => simp
    | cons k kr =>
      rw [hkw] at hk
      simp at hk
      simp
      intro h; exact absurd h.symm hk

theorem startsWith_head (s : Str) (q : Nat) (h : startsWith s [q] = true) : s.head? = some q := by
  cases s with
  | nil => simp [startsWith] at h
  | cons a r => simp [startsWith] at h; simp [h]

theorem decodeQuotedBase_num (g : Grammar) (s : Str) (hn : ∀ c ∈ s, NumCh c)
    (hq : g.quotes.all (fun q => !isDigit q && q != 45) = true) : decodeQuotedBase g s = none := by
  unfold decodeQuotedBase
  have : g.quotes.any (fun q => startsWith s [q] && endsWith s [q] && decide (s.length > 1)) = false := by
    rw [List.any_eq_false]
    intro q hqm
    simp only [Bool.and_eq_true, decide_eq_true_eq, not_and]
    intro hst
    exfalso
    have hh := startsWith_head s q hst.1
    have hmem : q ∈ s := List.mem_of_mem_head? (by simp [hh])
    have hnq := hn q hmem
    have := (List.all_eq_true.mp hq) q hqm
    simp only [Bool.and_eq_true, Bool.not_eq_true', bne_iff_ne, ne_eq] at this
    rcases hnq with h1 | h1
    · rw [this.1] at h1; cases h1
    · exact this.2 h1
  simp [this]

theorem decodeQuoted_num (d : Dec) (s : Str) (hn : ∀ c ∈ s, NumCh c)
    (hq : d.g.quotes.all (fun q => !isDigit q && q != 45) = true) : decodeQuoted d s = none := by
  unfold decodeQuoted
  rw [decodeQuotedBase_num d.g s hn hq]
  cases d.kind <;> rfl

/-! no `#`, no based integer -/

theorem optSign_sub (s : Str) : ∀ c ∈ (optSign s).2, c ∈ s := by
  intro c hc
  unfold optSign at hc
  split at hc <;> simp_all

theorem radixPvl_sub (s t : Str) (rad : Nat) (h : radixPvl s = some (rad, t)) : ∀ c ∈ t, c ∈ s := by
  intro c hc
  unfold radixPvl at h
  split at h <;> simp_all

theorem radixOdl_sub (s t : Str) (rad : Nat) (h : radixOdl s = some (rad, t)) : ∀ c ∈ t, c ∈ s := by
  intro c hc
  unfold radixOdl at h
  split at h
  · split at h <;> simp_all
  · split at h <;> simp_all
  · cases h

theorem ndFull_no_hash (pat : String) (s : Str) (h : 35 ∉ s) : ndFull pat s = none := by
  unfold ndFull
  split
  · simp only
    split
    · rename_i rad r' heq
      exact absurd (optSign_sub s 35 (radixPvl_sub _ _ _ heq 35 (by simp))) h
    · rfl
  · split
    · split
      · rename_i rad r' heq
        exact absurd (radixOdl_sub _ _ _ heq 35 (by simp)) h
      · rfl
    · split
      · simp only
        split
        · rename_i rad r' heq
          exact absurd (optSign_sub s 35 (radixOdl_sub _ _ _ heq 35 (by simp))) h
        · rfl
      · rfl

theorem decodeNonDecimal_no_hash (d : Dec) (s : Str) (h : 35 ∉ s) : decodeNonDecimal d s = none := by
  unfold decodeNonDecimal
  cases d.kind <;> simp [ndFull_no_hash _ s h]

/-- **the canonical spelling of an integer denotes that integer** under every decoder whose grammar table
    passes `NumSafe` -/
theorem decodeSimple_intStr (d : Dec) (hs : NumSafe d.g = true) (i : Int) :
    decodeSimple d (intStr i) = .ok (.int i) := by
  have hn := numCh_intStr i
  have hne := intStr_ne_nil i
  simp only [NumSafe, Bool.and_eq_true, List.all_cons, List.all_nil, Bool.and_true] at hs
  obtain ⟨⟨hk1, hk2, hk3⟩, hq⟩ := hs
  have h35 : 35 ∉ intStr i := by
    intro hm
    rcases numCh_cases 35 (hn 35 hm) with h | h | h | h | h | h | h | h | h | h | h <;> omega
  unfold decodeSimple
  rw [foldEq_num_kw _ _ hne hn hk1, foldEq_num_kw _ _ hne hn hk2, foldEq_num_kw _ _ hne hn hk3]
  simp only [Bool.false_eq_true, if_false]
  rw [decodeQuoted_num d _ hn hq, decodeNonDecimal_no_hash d _ h35]
  simp [decodeDecimal, int10_intStr]

/-- the value of a digit string is its positional value: `int("d₁…dₖ")` for ASCII digits, with
    leading zeros allowed (`007` is 7) -/
theorem int10_digits (s : Str) (hs : s ≠ []) (hd : AllDigits s) :
    int10 s = some (digitsVal s 0 : Int) := by
  have hascii : ∀ c ∈ s, c < 128 := fun c hc => (digit_facts c (hd c hc)).1
  have hsp : ∀ c ∈ s, cSpace c = false := fun c hc => (digit_facts c (hd c hc)).2.1
  obtain ⟨hh, hl⟩ := head_getLast_of_all (p := fun c => cSpace c = false) _ hsp
  unfold int10
  rw [toAsciiNum_of_ascii _ hascii, cstrip_id _ hh hl]
  have hsplit : splitSign s = (false, s) := by
    cases s with
    | nil => exact absurd rfl hs
    | cons c r =>
      have hc := digit_facts c (hd c (by simp))
      unfold splitSign
      split
      · rename_i heq; simp at heq; omega
      · rename_i heq; simp at heq; omega
      · rfl
  simp only [hsplit]
  rw [scanDigits_digits _ hd 0 false (Or.inl hs)]
  simp


end Pvl
