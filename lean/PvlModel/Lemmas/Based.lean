import PvlModel.Lemmas.Num

/-! Based integers: `2#1011#` under the PVL decoder denotes the positional value of its binary digits. -/
namespace Pvl
open Py Enc

/-- every character is `0` or `1` -/
def AllBits (s : Str) : Prop := ∀ c ∈ s, c = 48 ∨ c = 49

/-- positional value in base 2, most significant first -/
def binVal (s : Str) (acc : Nat) : Nat := s.foldl (fun a c => a * 2 + (c - 48)) acc

theorem scanDigits_bits (s : Str) (h : AllBits s) (acc : Nat) (any : Bool) (hne : s ≠ [] ∨ any = true) :
    scanDigits 2 s acc false any = some (binVal s acc) := by
  induction s generalizing acc any with
  | nil => simp at hne; simp [scanDigits, binVal, hne]
  | cons c r ih =>
    have hc := h c (by simp)
    unfold scanDigits
    have h95 : (c == 95) = false := by rcases hc with rfl | rfl <;> decide
    have hlt : digitValue c < 2 := by rcases hc with rfl | rfl <;> decide
    have hv : digitValue c = c - 48 := by rcases hc with rfl | rfl <;> decide
    simp only [h95, Bool.false_eq_true, if_false, hlt, if_true]
    rw [ih (fun x hx => h x (by simp [hx])) _ true (Or.inr rfl)]
    simp [binVal, hv]

theorem takeWhile_bits (bits rest : Str) (h : AllBits bits) :
    (bits ++ 35 :: rest).takeWhile (fun c => c == 48 || c == 49) = bits ∧
    (bits ++ 35 :: rest).dropWhile (fun c => c == 48 || c == 49) = 35 :: rest := by
  induction bits with
  | nil => simp [List.takeWhile, List.dropWhile]
  | cons c r ih =>
    have hc := h c (by simp)
    have : (c == 48 || c == 49) = true := by rcases hc with rfl | rfl <;> decide
    have ih' := ih (fun x hx => h x (by simp [hx]))
    simp [List.takeWhile, List.dropWhile, this, ih'.1, ih'.2]

/-- `int(bits, 2)` -/
theorem intBase_bits (bits : Str) (hb : AllBits bits) (hne : bits ≠ []) :
    intBase bits 2 = some (binVal bits 0 : Int) := by
  have hascii : ∀ c ∈ bits, c < 128 := by intro c hc; rcases hb c hc with rfl | rfl <;> omega
  have hsp : ∀ c ∈ bits, cSpace c = false := by intro c hc; rcases hb c hc with rfl | rfl <;> decide
  obtain ⟨hh, hl⟩ := head_getLast_of_all (p := fun c => cSpace c = false) _ hsp
  unfold intBase
  rw [toAsciiNum_of_ascii _ hascii, cstrip_id _ hh hl]
  have hsplit : splitSign bits = (false, bits) := by
    cases bits with
    | nil => exact absurd rfl hne
    | cons c r =>
      have hc := hb c (by simp)
      unfold splitSign
      split
      · rename_i heq; simp at heq; rcases hc with h | h <;> omega
      · rename_i heq; simp at heq; rcases hc with h | h <;> omega
      · rfl
  simp only [hsplit]
  have hp : ∀ a p r, bits = a :: p :: r → (p == 98 || p == 66) = false := by
    intro a p r e
    have := hb p (by rw [e]; simp)
    rcases this with rfl | rfl <;> decide
  have hscan : scanDigits 2 bits 0 false false = some (binVal bits 0) :=
    scanDigits_bits _ hb 0 false (Or.inl hne)
  match bits, hp, hscan with
  | [], _, hscan => simp [hscan]
  | [a], _, hscan => simp [hscan]
  | a :: p :: r, hp, hscan =>
    have := hp a p r rfl
    rcases hb a (by simp) with rfl | rfl
    · simp [this, hscan]
    · simp [hscan]

/-- `PVLDecoder.decode_non_decimal("2#bits#")` -/
theorem decodeNonDecimal_bin (g : Grammar) (hg : g.binPattern = patBin) (bits : Str) (hb : AllBits bits)
    (hne : bits ≠ []) :
    decodeNonDecimal ⟨g, .pvl⟩ (50 :: 35 :: (bits ++ [35])) = some (binVal bits 0 : Int) := by
  have htw := takeWhile_bits bits [] hb
  have hnd : ndFull patBin (50 :: 35 :: (bits ++ [35])) = some ⟨[], 2, none, bits⟩ := by
    unfold ndFull
    have h1 : (patBin == patPvlNd || patBin == patBin || patBin == patOct || patBin == patHex) = true := by decide
    simp only [h1, if_true]
    have h2 : optSign (50 :: 35 :: (bits ++ [35])) = ([], 50 :: 35 :: (bits ++ [35])) := by simp [optSign]
    simp only [h2, radixPvl]
    have h3 : (patBin == patBin) = true := by decide
    have h4 : (patBin == patOct) = false := by decide
    have h5 : (patBin == patHex) = false := by decide
    have hbe : bits.isEmpty = false := by cases bits <;> simp_all
    simp [h3, h4, h5, digitsHash, htw.1, htw.2, hbe]
  unfold decodeNonDecimal
  simp only [hg, List.findSome?, hnd]
  simpa using intBase_bits bits hb hne

end Pvl

namespace Pvl
open Py Enc

theorem foldEq_head_num (c : Nat) (r kw : Str) (hc : NumCh c)
    (hk : ((casefold kw).head? != some 0x110000) = true) : foldEq (c :: r) kw = false := by
  unfold foldEq
  rw [casefold_numCh c hc]
  cases hkw : casefold kw with
  | nil => simp
  | cons k kr =>
    rw [hkw] at hk
    simp at hk
    simp
    intro h; exact absurd h.symm hk

theorem decodeQuoted_head_num (d : Dec) (c : Nat) (r : Str) (hc : NumCh c)
    (hq : d.g.quotes.all (fun q => !isDigit q && q != 45) = true) : decodeQuoted d (c :: r) = none := by
  have hb : decodeQuotedBase d.g (c :: r) = none := by
    unfold decodeQuotedBase
    have : d.g.quotes.any (fun q => startsWith (c :: r) [q] && endsWith (c :: r) [q] &&
        decide ((c :: r).length > 1)) = false := by
      rw [List.any_eq_false]
      intro q hqm
      simp only [Bool.and_eq_true, decide_eq_true_eq, not_and]
      intro hst
      exfalso
      have hh := startsWith_head (c :: r) q hst.1
      simp at hh
      subst hh
      have := (List.all_eq_true.mp hq) c hqm
      simp only [Bool.and_eq_true, Bool.not_eq_true', bne_iff_ne, ne_eq] at this
      rcases hc with h1 | h1
      · rw [this.1] at h1; cases h1
      · exact this.2 h1
    rw [if_neg (by rw [this]; simp)]
  unfold decodeQuoted
  rw [hb]
  cases d.kind <;> rfl

/-- **`2#bits#` denotes the binary value of its digits** under the PVL decoder -/
theorem decodeSimple_bin (g : Grammar) (hs : NumSafe g = true) (hg : g.binPattern = patBin) (bits : Str)
    (hb : AllBits bits) (hne : bits ≠ []) :
    decodeSimple ⟨g, .pvl⟩ (50 :: 35 :: (bits ++ [35])) = .ok (.int (binVal bits 0)) := by
  simp only [NumSafe, Bool.and_eq_true, List.all_cons, List.all_nil, Bool.and_true] at hs
  obtain ⟨⟨hk1, hk2, hk3⟩, hq⟩ := hs
  have h50 : NumCh 50 := Or.inl (by decide)
  unfold decodeSimple
  rw [foldEq_head_num 50 _ _ h50 hk1, foldEq_head_num 50 _ _ h50 hk2, foldEq_head_num 50 _ _ h50 hk3]
  simp only [Bool.false_eq_true, if_false]
  rw [decodeQuoted_head_num ⟨g, .pvl⟩ 50 _ h50 hq, decodeNonDecimal_bin g hg bits hb hne]

end Pvl

namespace Pvl
open Py Enc

/-- first character of a decimal number's text: a digit, a sign or the point -/
def RealHead (c : Nat) : Prop := NumCh c ∨ c = 43 ∨ c = 46

theorem casefold_realHead (c : Nat) (h : RealHead c) (r : Str) : casefold (c :: r) = 0x110000 :: casefold r := by
  rcases h with h | h | h
  · exact casefold_numCh c h r
  · subst h
    have hf : Gen.pyCasefold.find? (fun p => p.1 == 43) = none := by decide
    simp [casefold, List.flatMap_cons, hf]
  · subst h
    have hf : Gen.pyCasefold.find? (fun p => p.1 == 46) = none := by decide
    simp [casefold, List.flatMap_cons, hf]

/-- `NumSafe`, and no quotation mark is `+` or `.` -/
def RealSafe (g : Grammar) : Bool := NumSafe g && g.quotes.all (fun q => q != 43 && q != 46)

theorem foldEq_head_real (c : Nat) (r kw : Str) (hc : RealHead c)
    (hk : ((casefold kw).head? != some 0x110000) = true) : foldEq (c :: r) kw = false := by
  unfold foldEq
  rw [casefold_realHead c hc]
  cases hkw : casefold kw with
  | nil => simp
  | cons k kr =>
    rw [hkw] at hk
    simp at hk
    simp
    intro h; exact absurd h.symm hk

theorem decodeQuoted_head_real (d : Dec) (c : Nat) (r : Str) (hc : RealHead c)
    (hq : d.g.quotes.all (fun q => !isDigit q && q != 45) = true)
    (hq2 : d.g.quotes.all (fun q => q != 43 && q != 46) = true) : decodeQuoted d (c :: r) = none := by
  rcases hc with hc | hc
  · exact decodeQuoted_head_num d c r hc hq
  · have hb : decodeQuotedBase d.g (c :: r) = none := by
      unfold decodeQuotedBase
      have : d.g.quotes.any (fun q => startsWith (c :: r) [q] && endsWith (c :: r) [q] &&
          decide ((c :: r).length > 1)) = false := by
        rw [List.any_eq_false]
        intro q hqm
        simp only [Bool.and_eq_true, decide_eq_true_eq, not_and]
        intro hst
        exfalso
        have hh := startsWith_head (c :: r) q hst.1
        simp at hh
        subst hh
        have := (List.all_eq_true.mp hq2) c hqm
        simp only [Bool.and_eq_true, bne_iff_ne, ne_eq] at this
        rcases hc with h1 | h1
        · exact this.1 h1
        · exact this.2 h1
      rw [if_neg (by rw [this]; simp)]
    unfold decodeQuoted
    rw [hb]
    cases d.kind <;> rfl

/-- **a decimal real's text denotes itself**: a text that begins with a digit, a sign or the point, holds no
    `#`, has `float()`'s syntax and is not an integer literal is decoded — by every decoder whose table
    passes `RealSafe` — to the real that carries exactly that text -/
theorem decodeSimple_real (d : Dec) (hs : RealSafe d.g = true) (c : Nat) (r : Str) (hc : RealHead c)
    (h35 : 35 ∉ c :: r) (hf : floatOk (c :: r) = true) (hi : int10 (c :: r) = none) :
    decodeSimple d (c :: r) = .ok (.real (c :: r)) := by
  simp only [RealSafe, NumSafe, Bool.and_eq_true, List.all_cons, List.all_nil, Bool.and_true] at hs
  obtain ⟨⟨⟨hk1, hk2, hk3⟩, hq⟩, hq2⟩ := hs
  unfold decodeSimple
  rw [foldEq_head_real c _ _ hc hk1, foldEq_head_real c _ _ hc hk2, foldEq_head_real c _ _ hc hk3]
  simp only [Bool.false_eq_true, if_false]
  rw [decodeQuoted_head_real d c _ hc hq hq2, decodeNonDecimal_no_hash d _ h35]
  simp [decodeDecimal, hi, hf]

end Pvl
