import PvlModel.Lemmas.ParserFrame
import PvlModel.Lemmas.ParserLines

/-! Fifth pass over the parser functions (C18): every real number in a value that a parser function returns
    is — as the text that will be handed to the caller's real-number class — the unaltered text of a token
    of the input that has `float()`'s syntax and is not an integer literal. -/
namespace Pvl
open Py

mutual
/-- the texts of the reals in a value, in document order (also inside sequences, sets, quantities, blocks) -/
def Val.reals : Val → List Str
  | .real t => [t]
  | .quant v _ => v.reals
  | .seq l => realsL l
  | .set _ l => realsL l
  | .cont _ items => realsI items
  | _ => []
def realsL : List Val → List Str
  | [] => []
  | v :: r => v.reals ++ realsL r
def realsI : List (Str × Val) → List Str
  | [] => []
  | p :: r => p.2.reals ++ realsI r
end

@[simp] theorem realsL_nil : realsL [] = [] := by simp [realsL]
@[simp] theorem realsI_nil : realsI [] = [] := by simp [realsI]
@[simp] theorem realsL_append (a b : List Val) : realsL (a ++ b) = realsL a ++ realsL b := by
  induction a with
  | nil => simp
  | cons v r ih => simp [realsL, ih]
@[simp] theorem realsI_append (a b : Items) : realsI (a ++ b) = realsI a ++ realsI b := by
  induction a with
  | nil => simp
  | cons v r ih => simp [realsI, ih]
@[simp] theorem realsL_single (v : Val) : realsL [v] = v.reals := by simp [realsL]
@[simp] theorem realsI_single (p : Str × Val) : realsI [p] = p.2.reals := by simp [realsI]

theorem realsI_dropLast_subset (m : Items) : ∀ x ∈ realsI m.dropLast, x ∈ realsI m := by
  induction m with
  | nil => simp
  | cons p r ih =>
    cases r with
    | nil => simp
    | cons q r' =>
      intro x hx
      simp only [List.dropLast_cons_cons, realsI, List.mem_append] at hx ⊢
      rcases hx with h | h
      · exact Or.inl h
      · exact Or.inr (by simpa [realsI] using ih x h)

/-- a scalar that is not a real -/
def Val.plain : Val → Bool
  | .none | .bool _ | .int _ | .str _ | .date _ _ _ | .time _ _ _ _ _ | .datetime _ _ _ _ _ _ _ _ => true
  | _ => false

theorem reals_of_plain (v : Val) (h : v.plain = true) : v.reals = [] := by
  cases v <;> simp [Val.plain] at h <;> simp [Val.reals]

theorem decodeDatetimeBase_plain (g : Grammar) (s : Str) (v : Val)
    (h : decodeDatetimeBase g s = some v) : v.plain = true := by
  unfold decodeDatetimeBase at h
  repeat' split at h
  all_goals first
    | (cases h; rfl)
    | (simp at h)

theorem decodeDatetimeOdl_plain (g : Grammar) (s : Str) (v : Val)
    (h : decodeDatetimeOdl g s = .ok v) : v.plain = true := by
  unfold decodeDatetimeOdl at h
  repeat' split at h
  all_goals first
    | (cases h; first | rfl | exact decodeDatetimeBase_plain _ _ _ (by assumption))
    | (simp at h; done)

theorem decodeDatetime_plain (d : Dec) (s : Str) (v : Val)
    (h : decodeDatetime d s = .ok v) : v.plain = true := by
  unfold decodeDatetime at h
  cases hk : d.kind <;> simp only [hk] at h
  · split at h
    · cases h; exact decodeDatetimeBase_plain _ _ _ (by assumption)
    · cases h
  · exact decodeDatetimeOdl_plain _ _ _ h
  · split at h
    · cases h
    · rename_i v' hv
      have := decodeDatetimeBase_plain _ _ _ hv
      repeat' split at h
      all_goals first
        | (cases h; assumption)
        | (cases h; done)
  · exact decodeDatetimeOdl_plain _ _ _ h

/-- what a real's text is: the token text itself, in `float()`'s syntax, and not an integer literal -/
def RealOf (s x : Str) : Prop := x = s ∧ floatOk s = true ∧ int10 s = none

/-- `decode_simple_value`: the only real it can return is the given text, unaltered -/
theorem decodeSimple_reals (d : Dec) (s : Str) (v : Val) (h : decodeSimple d s = .ok v) :
    ∀ x ∈ v.reals, RealOf s x := by
  unfold decodeSimple at h
  split at h
  · cases h; simp [Val.reals]
  split at h
  · cases h; simp [Val.reals]
  split at h
  · cases h; simp [Val.reals]
  split at h
  · cases h; simp [Val.reals]
  split at h
  · cases h; simp [Val.reals]
  split at h
  · rename_i v' hv
    cases h
    unfold decodeDecimal at hv
    split at hv
    · cases hv; simp [Val.reals]
    · split at hv
      · cases hv
        simp only [Val.reals, List.mem_singleton, forall_eq]
        exact ⟨rfl, by assumption, by assumption⟩
      · cases hv
  split at h
  · cases h
    rw [reals_of_plain _ (decodeDatetime_plain _ _ _ (by assumption))]
    simp
  split at h
  · cases h; simp [Val.reals]
  · cases h

end Pvl

namespace Pvl
open Py
namespace P
open Std.Do

set_option mvcgen.warning false

/-- every token still to come (and the one pushed back) carries a text from `T` -/
def TI (T : List Str) (s : PSt) : Prop :=
  (∀ t ∈ s.gen.pending, t.text ∈ T) ∧ (∀ t, s.gen.pushed = some t → t.text ∈ T)

/-- a real's text: a token text of the input, in `float()`'s syntax, not an integer literal -/
def ROK (T : List Str) (x : Str) : Prop := x ∈ T ∧ floatOk x = true ∧ int10 x = none

theorem decodeSimple_rok (T : List Str) (d : Dec) (s : Str) (v : Val) (h : decodeSimple d s = .ok v)
    (hs : s ∈ T) : ∀ x ∈ v.reals, ROK T x := by
  intro x hx
  obtain ⟨rfl, h2, h3⟩ := decodeSimple_reals d s v h x hx
  exact ⟨hs, h2, h3⟩

macro "rl_close" : tactic => `(tactic|
  all_goals (first
    | assumption
    | (intros; simp_all [TI, Val.reals]; done)
    | (simp_all (config := {zetaDelta := true}) [TI, Val.reals]; done)
    | grind [TI, Val.reals, decodeSimple_rok, realsI_append, realsL_append, realsI_single, realsL_single,
        realsI_nil, realsL_nil, realsI_dropLast_subset]
    | grind (splits := 30) [TI, Val.reals, decodeSimple_rok, realsI_append, realsL_append, realsI_single,
        realsL_single, realsI_nil, realsL_nil, realsI_dropLast_subset]))

theorem next_rl (c : PCfg) (T : List Str) :
    ⦃fun s => ⌜TI T s⌝⦄ (next c : PM Token)
    ⦃post⟨fun r s => ⌜TI T s ∧ r.text ∈ T⌝, fun _ s => ⌜TI T s⌝⟩⦄ := by
  mvcgen [next]; rl_close

theorem send_rl (t : Token) (T : List Str) :
    ⦃fun s => ⌜TI T s ∧ t.text ∈ T⌝⦄ (send t : PM Unit)
    ⦃post⟨fun _ s => ⌜TI T s⌝, fun _ s => ⌜TI T s⌝⟩⦄ := by
  mvcgen [send]; rl_close

theorem throwIn_rl {α} (T : List Str) :
    ⦃fun s => ⌜TI T s⌝⦄ (throwIn : PM α) ⦃post⟨fun _ _ => ⌜False⌝, fun _ s => ⌜TI T s⌝⟩⦄ := by
  mvcgen [throwIn]; rl_close

theorem mark_rl (site : String) (T : List Str) :
    ⦃fun s => ⌜TI T s⌝⦄ (mark site : PM Unit) ⦃post⟨fun _ s => ⌜TI T s⌝, fun _ _ => ⌜False⌝⟩⦄ := by
  mvcgen [mark]; rl_close

theorem emptyValue_rl (c : PCfg) (pos : Int) (T : List Str) :
    ⦃fun s => ⌜TI T s⌝⦄ (emptyValue c pos : PM Val)
    ⦃post⟨fun r s => ⌜TI T s ∧ r.reals = []⌝, fun _ _ => ⌜False⌝⟩⦄ := by
  mvcgen [emptyValue]; rl_close

theorem wscUntil_rl (c : PCfg) (tok : Option Str) (fuel : Nat) (T : List Str) :
    ⦃fun s => ⌜TI T s⌝⦄ (wscUntil c tok fuel : PM Bool)
    ⦃post⟨fun _ s => ⌜TI T s⌝, fun _ s => ⌜TI T s⌝⟩⦄ := by
  induction fuel with
  | zero => unfold wscUntil; mvcgen
  | succ n ih => unfold wscUntil; mvcgen [next_rl, send_rl, ih]; rl_close

theorem stmtDelim_rl (c : PCfg) (fuel : Nat) (T : List Str) :
    ⦃fun s => ⌜TI T s⌝⦄ (stmtDelim c fuel : PM Bool)
    ⦃post⟨fun _ s => ⌜TI T s⌝, fun _ s => ⌜TI T s⌝⟩⦄ := by
  induction fuel with
  | zero => unfold stmtDelim; mvcgen
  | succ n ih => unfold stmtDelim; mvcgen [next_rl, send_rl, ih]; rl_close

theorem aroundEquals_rl (c : PCfg) (fuel : Nat) (T : List Str) :
    ⦃fun s => ⌜TI T s⌝⦄ (aroundEquals c fuel : PM Unit)
    ⦃post⟨fun _ s => ⌜TI T s⌝, fun _ s => ⌜TI T s⌝⟩⦄ := by
  unfold aroundEquals
  mvcgen [wscUntil_rl, next_rl, send_rl]; rl_close

theorem units_rl (c : PCfg) (v : Val) (T : List Str) :
    ⦃fun s => ⌜TI T s⌝⦄ (units c v : PM Val)
    ⦃post⟨fun r s => ⌜TI T s ∧ r.reals = v.reals⌝, fun _ s => ⌜TI T s⌝⟩⦄ := by
  unfold units
  mvcgen [next_rl, send_rl, throwIn_rl]; rl_close

theorem valueHook_rl (c : PCfg) (T : List Str) :
    ⦃fun s => ⌜TI T s⌝⦄ (valueHook c : PM Val)
    ⦃post⟨fun r s => ⌜TI T s ∧ r.reals = []⌝, fun _ s => ⌜TI T s⌝⟩⦄ := by
  unfold valueHook
  mvcgen [next_rl, send_rl, emptyValue_rl]; rl_close


def ValueRl (c : PCfg) (T : List Str) (fuel : Nat) : Prop :=
  (⦃fun s => ⌜TI T s⌝⦄ (value c fuel : PM Val)
    ⦃post⟨fun r s => ⌜TI T s ∧ ∀ x ∈ r.reals, ROK T x⌝, fun _ s => ⌜TI T s⌝⟩⦄) ∧
  (∀ delims, ⦃fun s => ⌜TI T s⌝⦄ (setSeq c delims fuel : PM (List Val))
    ⦃post⟨fun r s => ⌜TI T s ∧ ∀ x ∈ realsL r, ROK T x⌝, fun _ s => ⌜TI T s⌝⟩⦄) ∧
  (∀ delims acc, (∀ x ∈ realsL acc, ROK T x) →
    ⦃fun s => ⌜TI T s⌝⦄ (setSeqLoop c delims acc fuel : PM (Option (List Val)))
    ⦃post⟨fun r s => ⌜TI T s ∧ ∀ l, r = some l → ∀ x ∈ realsL l, ROK T x⌝, fun _ s => ⌜TI T s⌝⟩⦄) ∧
  (⦃fun s => ⌜TI T s⌝⦄ (pset c fuel : PM Val)
    ⦃post⟨fun r s => ⌜TI T s ∧ ∀ x ∈ r.reals, ROK T x⌝, fun _ s => ⌜TI T s⌝⟩⦄) ∧
  (⦃fun s => ⌜TI T s⌝⦄ (pseq c fuel : PM Val)
    ⦃post⟨fun r s => ⌜TI T s ∧ ∀ x ∈ r.reals, ROK T x⌝, fun _ s => ⌜TI T s⌝⟩⦄)

theorem valueRl_zero (c : PCfg) (T : List Str) : ValueRl c T 0 := by
  refine ⟨?_, ?_, ?_, ?_, ?_⟩
  · unfold value; mvcgen
  · intro d; unfold setSeq; mvcgen
  · intro d a _; unfold setSeqLoop; mvcgen
  · unfold pset; mvcgen
  · unfold pseq; mvcgen

set_option maxHeartbeats 8000000 in
theorem valueRl_succ (c : PCfg) (T : List Str) (n : Nat) (ih : ValueRl c T n) : ValueRl c T (n + 1) := by
  obtain ⟨ihValue, ihSetSeq, ihLoop, ihSet, ihSeq⟩ := ih
  refine ⟨?_, ?_, ?_, ?_, ?_⟩
  · unfold value
    mvcgen [softCatch, next_rl, send_rl, ihSet, ihSeq, valueHook_rl, throwIn_rl, wscUntil_rl, units_rl]
    all_goals (try (rl_close; done))
    all_goals (
      intro s hs
      rename_i e
      by_cases hv : e.isValueError = true
      · simp only [hv, if_true]
        simp_all [TI]
      · simp only [hv]
        simp_all [TI])
  · intro d
    unfold setSeq
    mvcgen [next_rl, send_rl, wscUntil_rl, ihValue, ihLoop]
    rl_close
  · intro d a ha
    unfold setSeqLoop
    mvcgen [next_rl, send_rl, wscUntil_rl, ihValue, ihLoop, throwIn_rl]
    rl_close
  · unfold pset
    mvcgen [ihSetSeq, throwIn_rl]
    rl_close
  · unfold pseq
    mvcgen [ihSetSeq]
    rl_close

theorem valueRl (c : PCfg) (T : List Str) (fuel : Nat) : ValueRl c T fuel := by
  induction fuel with
  | zero => exact valueRl_zero c T
  | succ n ih => exact valueRl_succ c T n ih

theorem value_rl (c : PCfg) (T : List Str) (fuel : Nat) :
    ⦃fun s => ⌜TI T s⌝⦄ (value c fuel : PM Val)
    ⦃post⟨fun r s => ⌜TI T s ∧ ∀ x ∈ r.reals, ROK T x⌝, fun _ s => ⌜TI T s⌝⟩⦄ := (valueRl c T fuel).1


theorem assignmentBase_rl (c : PCfg) (T : List Str) (fuel : Nat) :
    ⦃fun s => ⌜TI T s⌝⦄ (assignmentBase c fuel : PM (Str × Val))
    ⦃post⟨fun r s => ⌜TI T s ∧ ∀ x ∈ r.2.reals, ROK T x⌝, fun _ s => ⌜TI T s⌝⟩⦄ := by
  have hV := value_rl c T fuel
  unfold assignmentBase
  mvcgen [softCatch, next_rl, send_rl, aroundEquals_rl, throwIn_rl, hV, stmtDelim_rl]
  rl_close

theorem assignment_rl (c : PCfg) (T : List Str) (fuel : Nat) :
    ⦃fun s => ⌜TI T s⌝⦄ (assignment c fuel : PM (Str × Val))
    ⦃post⟨fun r s => ⌜TI T s ∧ ∀ x ∈ r.2.reals, ROK T x⌝, fun _ s => ⌜TI T s⌝⟩⦄ := by
  have hA := assignmentBase_rl c T fuel
  unfold assignment
  mvcgen [hA, emptyValue_rl]
  rl_close

theorem endStatement_rl (c : PCfg) (T : List Str) :
    ⦃fun s => ⌜TI T s⌝⦄ (endStatement c : PM Unit)
    ⦃post⟨fun _ s => ⌜TI T s⌝, fun _ s => ⌜TI T s⌝⟩⦄ := by
  unfold endStatement
  mvcgen [next_rl, send_rl]
  rl_close

theorem beginAgg_rl (c : PCfg) (T : List Str) (fuel : Nat) :
    ⦃fun s => ⌜TI T s⌝⦄ (beginAgg c fuel : PM (Str × Str))
    ⦃post⟨fun _ s => ⌜TI T s⌝, fun _ s => ⌜TI T s⌝⟩⦄ := by
  unfold beginAgg
  mvcgen [softCatch, next_rl, send_rl, aroundEquals_rl, throwIn_rl, stmtDelim_rl]
  rl_close

theorem endAgg_rl (c : PCfg) (T : List Str) (b n : Str) (fuel : Nat) :
    ⦃fun s => ⌜TI T s⌝⦄ (endAgg c b n fuel : PM Unit)
    ⦃post⟨fun _ s => ⌜TI T s⌝, fun _ s => ⌜TI T s⌝⟩⦄ := by
  unfold endAgg
  mvcgen [next_rl, send_rl, aroundEquals_rl, throwIn_rl, stmtDelim_rl]
  rl_close

set_option maxHeartbeats 4000000 in
theorem moduleHook_rl (c : PCfg) (T : List Str) (m : Items) (fuel : Nat) (hm : ∀ x ∈ realsI m, ROK T x) :
    ⦃fun s => ⌜TI T s⌝⦄ (moduleHook c m fuel : PM (Items × Except PErr Bool))
    ⦃post⟨fun r s => ⌜TI T s ∧ ∀ x ∈ realsI r.1, ROK T x⌝, fun _ _ => ⌜False⌝⟩⦄ := by
  have hV := value_rl c T fuel
  unfold moduleHook moduleHook.peek
  mvcgen [next_rl, send_rl, emptyValue_rl, mark_rl, wscUntil_rl, hV, stmtDelim_rl]
  rl_close

def AggRl (c : PCfg) (T : List Str) (fuel : Nat) : Prop :=
  (⦃fun s => ⌜TI T s⌝⦄ (aggBlock c fuel : PM (Str × Val))
    ⦃post⟨fun r s => ⌜TI T s ∧ ∀ x ∈ r.2.reals, ROK T x⌝, fun _ s => ⌜TI T s⌝⟩⦄) ∧
  (∀ b n agg, (∀ x ∈ realsI agg, ROK T x) → ⦃fun s => ⌜TI T s⌝⦄ (aggLoop c b n agg fuel : PM Items)
    ⦃post⟨fun r s => ⌜TI T s ∧ ∀ x ∈ realsI r, ROK T x⌝, fun _ s => ⌜TI T s⌝⟩⦄)

theorem aggRl_zero (c : PCfg) (T : List Str) : AggRl c T 0 := by
  refine ⟨?_, ?_⟩
  · unfold aggBlock; mvcgen
  · intro b n a _; unfold aggLoop; mvcgen

set_option maxRecDepth 4000 in
set_option maxHeartbeats 16000000 in
theorem aggRl_succ (c : PCfg) (T : List Str) (k : Nat) (ih : AggRl c T k) : AggRl c T (k + 1) := by
  obtain ⟨ihBlock, ihLoop⟩ := ih
  have hA := assignment_rl c T k
  have hH := fun m hm => moduleHook_rl c T m k hm
  refine ⟨?_, ?_⟩
  · unfold aggBlock
    mvcgen [beginAgg_rl, throwIn_rl, ihLoop]
    rl_close
  · intro b n a ha
    unfold aggLoop
    mvcgen [softCatch, wscUntil_rl, ihBlock, ihLoop, hA, endAgg_rl, hH, throwIn_rl]
    rl_close

theorem aggRl (c : PCfg) (T : List Str) (fuel : Nat) : AggRl c T fuel := by
  induction fuel with
  | zero => exact aggRl_zero c T
  | succ n ih => exact aggRl_succ c T n ih

set_option maxRecDepth 4000 in
set_option maxHeartbeats 16000000 in
/-- **`parse_module`: every real in the module it returns is the unaltered text of an input token** -/
theorem moduleLoop_rl (c : PCfg) (T : List Str) (fuel : Nat) :
    ∀ m, (∀ x ∈ realsI m, ROK T x) → ⦃fun s => ⌜TI T s⌝⦄ (moduleLoop c m fuel : PM Items)
      ⦃post⟨fun r s => ⌜TI T s ∧ ∀ x ∈ realsI r, ROK T x⌝, fun _ s => ⌜TI T s⌝⟩⦄ := by
  induction fuel with
  | zero => intro m _; unfold moduleLoop; mvcgen
  | succ k ih =>
    intro m hm
    have hA := assignment_rl c T k
    have hB := (aggRl c T k).1
    have hH := fun m hm => moduleHook_rl c T m k hm
    unfold moduleLoop
    mvcgen [softCatch, wscUntil_rl, hB, hA, endStatement_rl, hH, next_rl, throwIn_rl, ih]
    rl_close

end P
end Pvl
