import PvlModel.Lemmas.ParserCount
namespace Pvl.P
open Std.Do Py
set_option mvcgen.warning false

macro "ct_close2" : tactic => `(tactic|
  all_goals (first
    | assumption
    | (intros; simp_all [K, Same, Used, NotKw, b2n, Bc, Ec, TS, isBt, Val.blocks, HookPost, EndSeen, Finished, Hard, Hard0, Inv, Got, GotT, Pend, Rdy, Live, PErr.isLexer, PErr.isValueError]; done)
    | (intros; simp_all [K, Same, Used, NotKw, b2n, Bc, Ec, TS, isBt, Val.blocks, HookPost, EndSeen, Finished, Hard, Hard0, Inv, Got, GotT, Pend, Rdy, Live, PErr.isLexer, PErr.isValueError]; omega)
    | grind [K, Same, Used, NotKw, CfgOK, Sane, b2n, Bc, Ec, TS, isBt, Val.blocks, decodeSimple_blocks, blocksI_append, blocksL_append, blocksI_single, blocksL_single, blocksI_nil, blocksL_nil, HookPost, EndSeen, Finished, Hard, Hard0, Inv, Got, GotT, Pend, Rdy, Live, PErr.isLexer, PErr.isValueError]
    | grind (splits := 40) [K, Same, Used, NotKw, CfgOK, Sane, b2n, Bc, Ec, TS, isBt, Val.blocks, decodeSimple_blocks, blocksI_append, blocksL_append, blocksI_single, blocksL_single, blocksI_nil, blocksL_nil, HookPost, EndSeen, Finished, Hard, Hard0, Inv, Got, GotT, Pend, Rdy, Live, PErr.isLexer, PErr.isValueError]))

/-! ### statements (strict parser classes) -/

set_option maxHeartbeats 8000000 in
theorem assignmentBase_ct (c : PCfg) (hc : CfgOK c) (fuel : Nat) (k0 : Nat × Nat) :
    ⦃fun s => ⌜Inv c s ∧ Same c k0 s⌝⦄ (assignmentBase c fuel : PM (Str × Val))
    ⦃post⟨fun r s => ⌜Inv c s ∧ Same c k0 s ∧ r.2.blocks = 0⌝,
          fun e s => ⌜Hard0 c e ∨ ((∃ t, e = .parse (some t)) ∧ c.tail = .eof) ∨ (e = .value ∧ Inv c s ∧ Same c k0 s)⌝⟩⦄ := by
  have hv := value_ct c hc fuel
  have hae := aroundEquals_ct c hc fuel
  unfold assignmentBase
  mvcgen -trivial [softCatch, next_ct, send_ct, hae, throwIn_Live_ct, hv, stmtDelim_ct]
  ct_ghost
  ct_close

theorem assignment_ct (c : PCfg) (hc : CfgOK c) (hk : c.kind ≠ .omni) (fuel : Nat) (k0 : Nat × Nat) :
    ⦃fun s => ⌜Inv c s ∧ Same c k0 s⌝⦄ (assignment c fuel : PM (Str × Val))
    ⦃post⟨fun r s => ⌜Inv c s ∧ Same c k0 s ∧ r.2.blocks = 0⌝,
          fun e s => ⌜Hard c e ∨ (e = .value ∧ Inv c s ∧ Same c k0 s)⌝⟩⦄ := by
  have hA := assignmentBase_ct c hc fuel
  unfold assignment
  mvcgen -trivial [hA]
  ct_ghost
  ct_close

theorem endStatement_ct (c : PCfg) (k0 : Nat × Nat) :
    ⦃fun s => ⌜Inv c s ∧ Same c k0 s⌝⦄ (endStatement c : PM Unit)
    ⦃post⟨fun _ s => ⌜Inv c s ∧ Finished c s ∧ Same c k0 s⌝,
          fun e s => ⌜e.isLexer = true ∨ (e = .value ∧ Pend s ∧ Same c k0 s)⌝⟩⦄ := by
  unfold endStatement
  mvcgen -trivial [next_ct, send_ct]
  ct_ghost
  ct_close

set_option maxHeartbeats 8000000 in
theorem beginAgg_ct (c : PCfg) (hc : CfgOK c) (fuel : Nat) (k0 : Nat × Nat) :
    ⦃fun s => ⌜Inv c s ∧ Same c k0 s⌝⦄ (beginAgg c fuel : PM (Str × Str))
    ⦃post⟨fun r s => ⌜Inv c s ∧ Used c k0 1 0 s ∧ isBt c r.1 = true ∧ Tok.isParameterName c.d r.2 = true⌝,
          fun e s => ⌜Hard0 c e ∨ (e = .value ∧ Inv c s ∧ Same c k0 s)⌝⟩⦄ := by
  have hae := aroundEquals_ct c hc fuel
  unfold beginAgg
  mvcgen -trivial [softCatch, next_ct, send_ct, hae, throwIn_Live_ct, stmtDelim_ct]
  ct_ghost
  ct_close2


theorem foldEq_comm (a b : Str) : foldEq a b = foldEq b a := by
  simp only [foldEq]
  exact BEq.comm

/-- the token accepted as the end of a block is an end keyword -/
theorem isEt_of_expected (c : PCfg) (b x : Str) (hb : isBt c b = true)
    (hx : foldEq x (match c.g.aggKeywords.find? (fun p => foldEq p.1 b) with | some p => p.2 | none => []) = true) :
    isEt c x = true := by
  simp only [isBt, Tok.isBeginAggregation, List.any_eq_true] at hb
  obtain ⟨p, hp, hpb⟩ := hb
  cases hf : c.g.aggKeywords.find? (fun p => foldEq p.1 b) with
  | none =>
    have := List.find?_eq_none.mp hf p hp
    rw [foldEq_comm] at this
    simp [hpb] at this
  | some q =>
    rw [hf] at hx
    simp only at hx
    have hq := List.mem_of_find?_eq_some hf
    simp only [isEt, List.any_eq_true]
    exact ⟨q, hq, hx⟩

set_option maxHeartbeats 8000000 in
theorem endAgg_ct (c : PCfg) (hc : CfgOK c) (b n : Str) (hb : isBt c b = true)
    (hn : Tok.isParameterName c.d n = true) (fuel : Nat) (k0 : Nat × Nat) :
    ⦃fun s => ⌜Inv c s ∧ Same c k0 s⌝⦄ (endAgg c b n fuel : PM Unit)
    ⦃post⟨fun _ s => ⌜Inv c s ∧ Used c k0 0 1 s⌝,
          fun e s => ⌜Hard0 c e ∨ (e = .stop ∧ c.tail = .eof) ∨ (e = .value ∧ Pend s ∧ Same c k0 s)⌝⟩⦄ := by
  have hae := aroundEquals_ct c hc fuel
  have hexp := isEt_of_expected c b
  unfold endAgg
  mvcgen -trivial [next_ct, send_ct, hae, throwIn_Live_ct, stmtDelim_ct]
  ct_ghost
  ct_close2

/-- the module post-hook of a strict parser: "ignore me", nothing consumed -/
theorem moduleHook_ct (c : PCfg) (hk : c.kind ≠ .omni) (m : Items) (fuel : Nat) (k0 : Nat × Nat) :
    ⦃fun s => ⌜Pend s ∧ Same c k0 s⌝⦄ (moduleHook c m fuel : PM (Items × Except PErr Bool))
    ⦃post⟨fun r s => ⌜r.1 = m ∧ r.2 = .error .exc ∧ Pend s ∧ Same c k0 s⌝, fun _ _ => ⌜False⌝⟩⦄ := by
  unfold moduleHook
  mvcgen
  ct_close2


/-- counters after a loop that has built `r` from `acc`: as many begin keywords as new blocks were consumed,
    and `extra` more end keywords than that (the loop's own closing statement) -/
def Grew (c : PCfg) (k1 : Nat × Nat) (acc r : Items) (extra : Nat) (s : PSt) : Prop :=
  Bc c s + blocksI r = k1.1 + blocksI acc ∧ Ec c s + blocksI r + extra = k1.2 + blocksI acc ∧ TS c s

def AggCt (c : PCfg) (fuel : Nat) : Prop :=
  (∀ k0, ⦃fun s => ⌜Inv c s ∧ Same c k0 s⌝⦄ (aggBlock c fuel : PM (Str × Val))
    ⦃post⟨fun r s => ⌜Inv c s ∧ Used c k0 r.2.blocks r.2.blocks s⌝,
          fun e s => ⌜Hard c e ∨ (e = .value ∧ Inv c s ∧ Same c k0 s)⌝⟩⦄) ∧
  (∀ b n agg k1, isBt c b = true → Tok.isParameterName c.d n = true →
    ⦃fun s => ⌜Inv c s ∧ Same c k1 s⌝⦄ (aggLoop c b n agg fuel : PM Items)
    ⦃post⟨fun r s => ⌜Inv c s ∧ Grew c k1 agg r 1 s ∧ 0 ≤ fuel⌝, fun e _ => ⌜Hard c e ∧ 0 ≤ fuel⌝⟩⦄)

theorem aggCt_zero (c : PCfg) : AggCt c 0 := by
  refine ⟨?_, ?_⟩
  · intro k0; unfold aggBlock; mvcgen; ct_close2
  · intro b n a k1 _ _; unfold aggLoop; mvcgen; ct_close2

macro "ct_close_g" : tactic => `(tactic|
  all_goals (first
    | assumption
    | grind [K, Same, Used, Grew, NotKw, CfgOK, Sane, b2n, Bc, Ec, TS, isBt, Val.blocks, blocksI_append, blocksI_single, blocksI_nil, HookPost, EndSeen, Finished, Hard, Hard0, Inv, Got, GotT, Pend, Rdy, Live, PErr.isLexer, PErr.isValueError]
    | grind (splits := 40) [K, Same, Used, Grew, NotKw, CfgOK, Sane, b2n, Bc, Ec, TS, isBt, Val.blocks, blocksI_append, blocksI_single, blocksI_nil, HookPost, EndSeen, Finished, Hard, Hard0, Inv, Got, GotT, Pend, Rdy, Live, PErr.isLexer, PErr.isValueError]
    | grind (splits := 40) [K, Same, Used, Grew, NotKw, CfgOK, Sane, b2n, Bc, Ec, TS, isBt, Val.blocks, blocksI_append, blocksI_single, blocksI_nil, HookPost, EndSeen, Finished, Hard, Hard0, Inv, Got, GotT, Pend, Rdy, Live, isLexer_iff, PErr.isValueError]))

set_option maxRecDepth 4000 in
set_option maxHeartbeats 32000000 in
theorem aggCt_succ (c : PCfg) (hc : CfgOK c) (hk : c.kind ≠ .omni)
    (hcls : ∀ b, isBt c b = true → aggregationCls c.g b ≠ none) (k : Nat) (ih : AggCt c k) : AggCt c (k + 1) := by
  obtain ⟨ihBlock, ihLoop⟩ := ih
  have hno : ∀ x, (none : Option Str) = some x → NotKw c x := by intro x hx; cases hx
  have hw0 := wscUntil_ct c none hno
  have hA := assignment_ct c hc hk k
  have hB := beginAgg_ct c hc k
  have hH := fun m => moduleHook_ct c hk m k
  refine ⟨?_, ?_⟩
  · intro k0
    unfold aggBlock
    mvcgen -trivial [hB, throwIn_Live_ct, ihLoop]
    ct_ghost
    ct_close_g
  · intro b n a k1 hb hn
    have hE := endAgg_ct c hc b n hb hn k
    have ihL := fun agg k1 => ihLoop b n agg k1 hb hn
    unfold aggLoop
    mvcgen -trivial [softCatch, hw0, ihBlock, ihL, hA, hE, hH, throwIn_Live_ct]
    ct_ghost
    ct_close_g


theorem aggCt (c : PCfg) (hc : CfgOK c) (hk : c.kind ≠ .omni)
    (hcls : ∀ b, isBt c b = true → aggregationCls c.g b ≠ none) (fuel : Nat) : AggCt c fuel := by
  induction fuel with
  | zero => exact aggCt_zero c
  | succ n ih => exact aggCt_succ c hc hk hcls n ih

theorem aggBlock_ct (c : PCfg) (hc : CfgOK c) (hk : c.kind ≠ .omni)
    (hcls : ∀ b, isBt c b = true → aggregationCls c.g b ≠ none) (fuel : Nat) (k0 : Nat × Nat) :
    ⦃fun s => ⌜Inv c s ∧ Same c k0 s⌝⦄ (aggBlock c fuel : PM (Str × Val))
    ⦃post⟨fun r s => ⌜Inv c s ∧ Used c k0 r.2.blocks r.2.blocks s⌝,
          fun e s => ⌜Hard c e ∨ (e = .value ∧ Inv c s ∧ Same c k0 s)⌝⟩⦄ :=
  (aggCt c hc hk hcls fuel).1 k0

set_option maxRecDepth 4000 in
set_option maxHeartbeats 32000000 in
/-- **`parse_module` of a strict parser accounts for every block keyword**: when it returns, the begin
    keywords consumed, and the end keywords consumed, are exactly as many as the blocks it added -/
theorem moduleLoop_ct (c : PCfg) (hc : CfgOK c) (hk : c.kind ≠ .omni)
    (hcls : ∀ b, isBt c b = true → aggregationCls c.g b ≠ none) (fuel : Nat) :
    ∀ m k1, ⦃fun s => ⌜Inv c s ∧ Same c k1 s⌝⦄ (moduleLoop c m fuel : PM Items)
      ⦃post⟨fun r s => ⌜Grew c k1 m r 0 s ∧ 0 ≤ fuel⌝, fun _ _ => ⌜0 ≤ fuel⌝⟩⦄ := by
  induction fuel with
  | zero => intro m k1; unfold moduleLoop; mvcgen; ct_close2
  | succ k ih =>
    intro m k1
    have hno : ∀ x, (none : Option Str) = some x → NotKw c x := by intro x hx; cases hx
    have hw0 := wscUntil_ct c none hno
    have hA := assignment_ct c hc hk k
    have hB := aggBlock_ct c hc hk hcls k
    have hH := fun m => moduleHook_ct c hk m k
    unfold moduleLoop
    mvcgen -trivial [softCatch, hw0, hB, hA, endStatement_ct, hH, next_pend_ct, throwIn_Live_ct, ih]
    ct_ghost
    ct_close_g

end Pvl.P
