import PvlModel.Lemmas.OdlZone
namespace Pvl
open Py Enc

/-! ### the PDS3 spelling: milliseconds, `HH:MM:SS.mmm` -/

theorem natOf_ms (ms : Nat) (h : ms < 1000) : natOf (pad ms 3 ++ [48, 48, 48]) = some (ms * 1000) := by
  rw [pad3 ms h]
  have hd : AllDigits ([48 + ms / 100, 48 + ms / 10 % 10, 48 + ms % 10] ++ [48, 48, 48]) := by
    intro c hc
    simp only [List.cons_append, List.nil_append, List.mem_cons, List.mem_nil_iff, or_false] at hc
    simp only [isDigit, Bool.and_eq_true, decide_eq_true_eq]
    rcases hc with rfl | rfl | rfl | rfl | rfl | rfl <;> omega
  unfold natOf
  rw [int10_digits _ (by simp) hd]
  simp [digitsVal]
  omega

/-- `%f` on three digits followed by the end of the text or by a character that is not a digit -/
theorem f3_field (ms : Nat) (hms : ms < 1000) (r : List Item) (rest fin : Str) (caps : List (Field × Str))
    (hrest : ∀ c t, rest = c :: t → ¬ (48 ≤ c ∧ c ≤ 57))
    (hk : matchItems r rest = some (caps, fin)) :
    matchItems (itemf :: r) (pad ms 3 ++ rest) = some ((.f, pad ms 3) :: caps, fin) := by
  rw [matchItems_cons]
  have hl := length_pad ms 3 (by omega) (by omega)
  have hm := matchCCs_digits (pad ms 3) rest (allDigits_pad ms 3)
  rw [hl] at hm
  have : itemf.alts = [List.replicate 6 (dg 0 9), List.replicate 5 (dg 0 9), List.replicate 4 (dg 0 9),
      List.replicate 3 (dg 0 9), List.replicate 2 (dg 0 9), List.replicate 1 (dg 0 9)] := by rfl
  rw [this]
  have hfail : ∀ k, 4 ≤ k → matchCCs (List.replicate k (dg 0 9)) (pad ms 3 ++ rest) = none := by
    intro k hk4
    obtain ⟨j, rfl⟩ : ∃ j, k = j + 4 := ⟨k - 4, by omega⟩
    rw [pad3 ms hms]
    have d1 : CC.ok (dg 0 9) (48 + ms / 100) = true := by simp [dg, ccr]; omega
    have d2 : CC.ok (dg 0 9) (48 + ms / 10 % 10) = true := by simp [dg, ccr]; omega
    have d3 : CC.ok (dg 0 9) (48 + ms % 10) = true := by simp [dg, ccr]; omega
    cases rest with
    | nil => simp [List.replicate_succ, matchCCs, d1, d2, d3]
    | cons c t =>
      have hc := hrest c t rfl
      have d4 : CC.ok (dg 0 9) c = false := by simp [dg, ccr]; omega
      simp [List.replicate_succ, matchCCs, d1, d2, d3, d4]
  rw [matchAlts_skip _ _ _ _ _ (hfail 6 (by omega)), matchAlts_skip _ _ _ _ _ (hfail 5 (by omega)),
    matchAlts_skip _ _ _ _ _ (hfail 4 (by omega))]
  exact matchAlts_first _ _ _ _ _ _ rest fin caps hm hk

/-- the seconds part of `PDSLabelEncoder.encode_time` -/
def pdsTail (s us : Nat) : Str :=
  if us != 0 then 58 :: (pad s 2 ++ 46 :: pad (us / 1000) 3) else if s != 0 then 58 :: pad s 2 else []

/-- the text `PDSLabelEncoder.encode_time` writes before the optional `Z` -/
def pdsTimeBase (h mi s us : Nat) : Str := pad h 2 ++ 58 :: (pad mi 2 ++ pdsTail s us)

theorem match_HMSf3_rest (h mi s ms : Nat) (hh : h < 24) (hm : mi < 60) (hs : s < 60) (hms : ms < 1000)
    (rest : Str) (hrest : ∀ c t, rest = c :: t → ¬ (48 ≤ c ∧ c ≤ 57)) :
    matchItems [itemH, litColon, itemM, litColon, itemS, litDot, itemf]
        (pad h 2 ++ 58 :: (pad mi 2 ++ 58 :: (pad s 2 ++ 46 :: (pad ms 3 ++ rest)))) =
      some ([(.H, pad h 2), (.none, [58]), (.M, pad mi 2), (.none, [58]), (.S, pad s 2), (.none, [46]),
        (.f, pad ms 3)], rest) :=
  H_field h hh _ _ _ _ (colon_field _ _ _ _ (M_field mi hm _ _ _ _ (colon_field _ _ _ _
    (S_field s hs _ _ _ _ (dot_field _ _ _ _ (f3_field ms hms _ _ _ _ hrest (matchItems_nil rest)))))))

theorem strptime_HMSf3 (h mi s ms : Nat) (hh : h < 24) (hm : mi < 60) (hs : s < 60) (hms : ms < 1000) :
    strptime (pad h 2 ++ 58 :: (pad mi 2 ++ 58 :: (pad s 2 ++ 46 :: pad ms 3))) fmtHMSf =
      some ⟨1900, 1, 1, h, mi, s, ms * 1000⟩ := by
  unfold strptime
  rw [compile_HMSf]
  have := match_HMSf3_rest h mi s ms hh hm hs hms [] (by intro c t h; cases h)
  simp only [List.append_nil] at this
  simp only [this]
  have e : ¬ s > 59 := by omega
  have hl := length_pad ms 3 (by omega) (by omega)
  simp [field?, List.find?, field_beq, natOf_pad, daysInMonth, e, hl, natOf_ms ms hms]

theorem strptime_HMSf3_Z_more (h mi s ms : Nat) (hh : h < 24) (hm : mi < 60) (hs : s < 60) (hms : ms < 1000) :
    strptime (pad h 2 ++ 58 :: (pad mi 2 ++ 58 :: (pad s 2 ++ 46 :: (pad ms 3 ++ [90])))) fmtHMSf = none := by
  unfold strptime
  rw [compile_HMSf]
  have := match_HMSf3_rest h mi s ms hh hm hs hms [90] (by intro c t h; cases h; omega)
  simp [this]

theorem strptime_HMSf3Z (h mi s ms : Nat) (hh : h < 24) (hm : mi < 60) (hs : s < 60) (hms : ms < 1000) :
    strptime (pad h 2 ++ 58 :: (pad mi 2 ++ 58 :: (pad s 2 ++ 46 :: (pad ms 3 ++ [90])))) fmtHMSfZ =
      some ⟨1900, 1, 1, h, mi, s, ms * 1000⟩ := by
  unfold strptime
  rw [compile_HMSfZ]
  have hm' : matchItems [itemH, litColon, itemM, litColon, itemS, litDot, itemf, litZ]
      (pad h 2 ++ 58 :: (pad mi 2 ++ 58 :: (pad s 2 ++ 46 :: (pad ms 3 ++ [90])))) =
      some ([(.H, pad h 2), (.none, [58]), (.M, pad mi 2), (.none, [58]), (.S, pad s 2), (.none, [46]),
        (.f, pad ms 3), (.none, [90])], []) :=
    H_field h hh _ _ _ _ (colon_field _ _ _ _ (M_field mi hm _ _ _ _ (colon_field _ _ _ _
      (S_field s hs _ _ _ _ (dot_field _ _ _ _ (f3_field ms hms _ _ _ _ (by intro c t h; cases h; omega)
        (Z_field _ _ _ _ (matchItems_nil []))))))))
  simp only [hm']
  have e : ¬ s > 59 := by omega
  have hl := length_pad ms 3 (by omega) (by omega)
  simp [field?, List.find?, field_beq, natOf_pad, daysInMonth, e, hl, natOf_ms ms hms]

end Pvl

namespace Pvl
open Py Enc

theorem pdsTimeBase_of_zero (h mi s : Nat) : pdsTimeBase h mi s 0 = encodeTimeBase h mi s 0 := by
  rw [encodeTimeBase_eq]; simp [pdsTimeBase, pdsTail, timeTail]

/-- **`decode_datetime` reads the PDS3 spelling `HH:MM[:SS[.mmm]]`, with or without `Z`** -/
theorem decodeDatetimeBase_time_pds (g : Grammar) (hg : TimeTablesOK6 g = true) (h mi s us : Nat)
    (hv : ValidTime h mi s us) (hp : us % 1000 = 0) :
    decodeDatetimeBase g (pdsTimeBase h mi s us) = some (.time h mi s us (defaultTz g)) ∧
    decodeDatetimeBase g (pdsTimeBase h mi s us ++ [90]) = some (.time h mi s us (some 0)) := by
  have hg3 : TimeTablesOK g = true := by
    simp only [TimeTablesOK6, Bool.and_eq_true, beq_iff_eq] at hg
    simp only [TimeTablesOK, Bool.and_eq_true, beq_iff_eq]
    refine ⟨hg.1, ?_⟩
    have := congrArg (List.take 3) hg.2
    simpa [List.take_take] using this
  by_cases h0 : us = 0
  · subst h0
    rw [pdsTimeBase_of_zero]
    exact ⟨decodeDatetimeBase_time g hg3 h mi s 0 hv, decodeDatetimeBase_timeZ g hg h mi s 0 hv⟩
  · obtain ⟨hh, hm, hs, hus⟩ := hv
    have hms : us / 1000 < 1000 := by omega
    have hback : us / 1000 * 1000 = us := by omega
    have hune : (us != 0) = true := by simp [h0]
    simp only [TimeTablesOK6, Bool.and_eq_true, beq_iff_eq] at hg
    have htf : ∃ r, g.timeFormats = fmtHM :: fmtHMS :: fmtHMSf :: fmtHMZ :: fmtHMSZ :: fmtHMSfZ :: r := by
      have h6 := hg.2
      match hl : g.timeFormats, h6 with
      | a :: b :: c :: d :: e :: f :: r, h6 =>
        simp at h6
        obtain ⟨rfl, rfl, rfl, rfl, rfl, rfl⟩ := h6
        exact ⟨r, rfl⟩
      | [], h6 => simp at h6
      | [_], h6 => simp at h6
      | [_, _], h6 => simp at h6
      | [_, _, _], h6 => simp at h6
      | [_, _, _, _], h6 => simp at h6
      | [_, _, _, _, _], h6 => simp at h6
    obtain ⟨r, htf⟩ := htf
    have hshape : pdsTimeBase h mi s us = pad h 2 ++ 58 :: (pad mi 2 ++ 58 :: (pad s 2 ++ 46 :: pad (us / 1000) 3)) := by
      simp [pdsTimeBase, pdsTail, hune]
    constructor
    · unfold decodeDatetimeBase
      have hdates : firstSome (strptime (pdsTimeBase h mi s us)) g.dateFormats = none := by
        rw [hshape, pad2_cons h (by omega)]
        exact dates_fail g hg3 _ _ _
      have hz : endsWith (pdsTimeBase h mi s us) [90] = false := by
        rw [hshape]
        have : pad h 2 ++ 58 :: (pad mi 2 ++ 58 :: (pad s 2 ++ 46 :: pad (us / 1000) 3)) =
            (pad h 2 ++ 58 :: (pad mi 2 ++ 58 :: (pad s 2 ++ [46]))) ++ pad (us / 1000) 3 := by simp
        rw [this]; exact endsWith_digits _ _ (pad_ne_nil _ 3) (allDigits_pad _ 3)
      rw [hdates]
      simp only [hz, Bool.false_eq_true, if_false]
      rw [htf, hshape]
      rw [firstSome_cons_none _ _ _ (strptime_HM_more h mi hh hm 58 (pad s 2 ++ 46 :: pad (us / 1000) 3))]
      rw [firstSome_cons_none _ _ _ (strptime_HMS_more h mi s hh hm hs 46 (pad (us / 1000) 3))]
      rw [firstSome_cons_some _ _ _ _ (strptime_HMSf3 h mi s (us / 1000) hh hm hs hms)]
      simp [hback, defaultTz]
    · unfold decodeDatetimeBase
      have hdates : firstSome (strptime (pdsTimeBase h mi s us ++ [90])) g.dateFormats = none := by
        rw [hshape, pad2_cons h (by omega)]
        exact dates_fail g hg3 _ _ _
      rw [hdates]
      simp only [endsWith_snoc, if_true]
      rw [htf, hshape]
      simp only [List.append_assoc, List.cons_append]
      rw [firstSome_cons_none _ _ _ (strptime_HM_more h mi hh hm 58 (pad s 2 ++ 46 :: (pad (us / 1000) 3 ++ [90])))]
      rw [firstSome_cons_none _ _ _ (strptime_HMS_more h mi s hh hm hs 46 (pad (us / 1000) 3 ++ [90]))]
      rw [firstSome_cons_none _ _ _ (strptime_HMSf3_Z_more h mi s (us / 1000) hh hm hs hms)]
      rw [firstSome_cons_none _ _ _ (strptime_fail_of_match_none _ _ _ compile_HMZ
        (HM_then_lit_fail h mi hh hm 90 dZ [] 58 (pad s 2 ++ 46 :: (pad (us / 1000) 3 ++ [90])) (by decide)))]
      rw [firstSome_cons_none _ _ _ (strptime_fail_of_match_none _ _ _ compile_HMSZ
        (HMS_then_lit_fail h mi s hh hm hs 90 dZ [] 46 (pad (us / 1000) 3 ++ [90]) (by decide)))]
      rw [firstSome_cons_some _ _ _ _ (strptime_HMSf3Z h mi s (us / 1000) hh hm hs hms)]
      simp [hback]

end Pvl

namespace Pvl
open Py Enc

theorem strptime_DT_HMSf3 (y m d h mi s ms : Nat) (hd : ValidDate y m d) (hh : h < 24) (hm : mi < 60)
    (hs : s < 60) (hms : ms < 1000) :
    strptime (dateT y m d (pad h 2 ++ 58 :: (pad mi 2 ++ 58 :: (pad s 2 ++ 46 :: pad ms 3)))) (fmtDT fmtHMSf) =
      some ⟨y, m, d, h, mi, s, ms * 1000⟩ := by
  obtain ⟨e1, e2⟩ := date_checks y m d hd
  obtain ⟨hy1, hy2, hm1, hm2, hd1, hd2⟩ := hd
  have hd3 := daysInMonth_le y m
  unfold strptime
  rw [compile_DT_HMSf]
  have hm' := match_HMSf3_rest h mi s ms hh hm hs hms [] (by intro c t h; cases h)
  simp only [List.append_nil] at hm'
  simp only [date_prefix y m d (by omega) hm1 hm2 hd1 (by omega) _ _ _ _ hm']
  have e : ¬ s > 59 := by omega
  have hl := length_pad ms 3 (by omega) (by omega)
  simp [dateCaps, field?, List.find?, field_beq, natOf_pad, e1, e2, e, hl, natOf_ms ms hms]

theorem strptime_DT_HMSf3Z (y m d h mi s ms : Nat) (hd : ValidDate y m d) (hh : h < 24) (hm : mi < 60)
    (hs : s < 60) (hms : ms < 1000) :
    strptime (dateT y m d (pad h 2 ++ 58 :: (pad mi 2 ++ 58 :: (pad s 2 ++ 46 :: (pad ms 3 ++ [90])))))
      (fmtDT fmtHMSfZ) = some ⟨y, m, d, h, mi, s, ms * 1000⟩ := by
  obtain ⟨e1, e2⟩ := date_checks y m d hd
  obtain ⟨hy1, hy2, hm1, hm2, hd1, hd2⟩ := hd
  have hd3 := daysInMonth_le y m
  unfold strptime
  rw [compile_DT_HMSfZ]
  have hm' : matchItems [itemH, litColon, itemM, litColon, itemS, litDot, itemf, litZ]
      (pad h 2 ++ 58 :: (pad mi 2 ++ 58 :: (pad s 2 ++ 46 :: (pad ms 3 ++ [90])))) =
      some ([(.H, pad h 2), (.none, [58]), (.M, pad mi 2), (.none, [58]), (.S, pad s 2), (.none, [46]),
        (.f, pad ms 3), (.none, [90])], []) :=
    H_field h hh _ _ _ _ (colon_field _ _ _ _ (M_field mi hm _ _ _ _ (colon_field _ _ _ _
      (S_field s hs _ _ _ _ (dot_field _ _ _ _ (f3_field ms hms _ _ _ _ (by intro c t h; cases h; omega)
        (Z_field _ _ _ _ (matchItems_nil []))))))))
  simp only [date_prefix y m d (by omega) hm1 hm2 hd1 (by omega) _ _ _ _ hm']
  have e : ¬ s > 59 := by omega
  have hl := length_pad ms 3 (by omega) (by omega)
  simp [dateCaps, field?, List.find?, field_beq, natOf_pad, e1, e2, e, hl, natOf_ms ms hms]

/-- **`decode_datetime` reads the PDS3 spelling `YYYY-MM-DDTHH:MM[:SS[.mmm]]`, with or without `Z`** -/
theorem decodeDatetimeBase_datetime_pds (g : Grammar) (hg : DtTablesOK g = true) (y m d h mi s us : Nat)
    (hd : ValidDate y m d) (hv : ValidTime h mi s us) (hp : us % 1000 = 0) :
    decodeDatetimeBase g (dateT y m d (pdsTimeBase h mi s us)) = some (.datetime y m d h mi s us (defaultTz g)) ∧
    decodeDatetimeBase g (dateT y m d (pdsTimeBase h mi s us ++ [90])) =
      some (.datetime y m d h mi s us (some 0)) := by
  by_cases h0 : us = 0
  · subst h0
    rw [pdsTimeBase_of_zero]
    exact ⟨decodeDatetimeBase_datetime g hg y m d h mi s 0 hd hv,
      decodeDatetimeBase_datetimeZ g hg y m d h mi s 0 hd hv⟩
  · obtain ⟨hh, hm, hs, hus⟩ := hv
    have hd' := hd
    obtain ⟨hy1, hy2, hm1, hm2, hd1, hd2⟩ := hd'
    have hd3 := daysInMonth_le y m
    have hms : us / 1000 < 1000 := by omega
    have hback : us / 1000 * 1000 = us := by omega
    have hune : (us != 0) = true := by simp [h0]
    simp only [DtTablesOK, Bool.and_eq_true, beq_iff_eq] at hg
    obtain ⟨⟨hgd, hgt⟩, hgdt⟩ := hg
    have hdt : ∃ r, g.datetimeFormats = fmtDT fmtHM :: fmtDT fmtHMZ :: fmtDT fmtHMS :: fmtDT fmtHMSZ ::
        fmtDT fmtHMSf :: fmtDT fmtHMSfZ :: r := by
      match hl : g.datetimeFormats, hgdt with
      | a :: b :: c :: d' :: e :: f :: r, h6 =>
        simp at h6
        obtain ⟨rfl, rfl, rfl, rfl, rfl, rfl⟩ := h6
        exact ⟨r, rfl⟩
      | [], h6 => simp at h6
      | [_], h6 => simp at h6
      | [_, _], h6 => simp at h6
      | [_, _, _], h6 => simp at h6
      | [_, _, _, _], h6 => simp at h6
      | [_, _, _, _, _], h6 => simp at h6
    obtain ⟨r, hdt⟩ := hdt
    have hshape : pdsTimeBase h mi s us = pad h 2 ++ 58 :: (pad mi 2 ++ 58 :: (pad s 2 ++ 46 :: pad (us / 1000) 3)) := by
      simp [pdsTimeBase, pdsTail, hune]
    have pre := fun r rest caps fin hk => date_prefix y m d (by omega) hm1 hm2 hd1 (by omega) r rest fin caps hk
    have pren := fun r rest hk => date_prefix_none y m d (by omega) hm2 (by omega) r rest hk
    constructor
    · have hlen : 12 ≤ (dateT y m d (pdsTimeBase h mi s us)).length := by
        rw [dateT_length y m d (by omega) (by omega) (by omega), hshape]; simp; omega
      have hz : endsWith (dateT y m d (pdsTimeBase h mi s us)) [90] = false := by
        rw [hshape]
        have : dateT y m d (pad h 2 ++ 58 :: (pad mi 2 ++ 58 :: (pad s 2 ++ 46 :: pad (us / 1000) 3))) =
            (pad y 4 ++ 45 :: (pad m 2 ++ 45 :: (pad d 2 ++ 84 :: (pad h 2 ++ 58 :: (pad mi 2 ++ 58 ::
              (pad s 2 ++ [46])))))) ++ pad (us / 1000) 3 := by simp [dateT]
        rw [this]; exact endsWith_digits _ _ (pad_ne_nil _ 3) (allDigits_pad _ 3)
      unfold decodeDatetimeBase
      rw [date_formats_fail g hgd _ hlen]
      simp only [hz, Bool.false_eq_true, if_false]
      have htimes : firstSome (strptime (dateT y m d (pdsTimeBase h mi s us))) g.timeFormats = none := by
        rw [dateT_head3 y m d (by omega)]
        exact time_formats_fail g hgt _ _ _ (by omega) (Nat.mod_lt _ (by omega)) (Nat.mod_lt _ (by omega)) _
      rw [htimes, hdt, hshape]
      rw [firstSome_cons_none _ _ _ (strptime_leaves _ _ _ compile_DT_HM _ 58 (pad s 2 ++ 46 :: pad (us / 1000) 3)
        (pre _ _ _ _ (match_HM h mi hh hm (58 :: (pad s 2 ++ 46 :: pad (us / 1000) 3)))))]
      rw [firstSome_cons_none _ _ _ (strptime_fail_of_match_none _ _ _ compile_DT_HMZ
        (pren _ _ (HM_then_lit_fail h mi hh hm 90 dZ [] 58 (pad s 2 ++ 46 :: pad (us / 1000) 3) (by decide))))]
      rw [firstSome_cons_none _ _ _ (strptime_leaves _ _ _ compile_DT_HMS _ 46 (pad (us / 1000) 3)
        (pre _ _ _ _ (match_HMS h mi s hh hm hs (46 :: pad (us / 1000) 3))))]
      rw [firstSome_cons_none _ _ _ (strptime_fail_of_match_none _ _ _ compile_DT_HMSZ
        (pren _ _ (HMS_then_lit_fail h mi s hh hm hs 90 dZ [] 46 (pad (us / 1000) 3) (by decide))))]
      rw [firstSome_cons_some _ _ _ _ (strptime_DT_HMSf3 y m d h mi s (us / 1000) hd hh hm hs hms)]
      simp [hback, defaultTz]
    · have hlen : 12 ≤ (dateT y m d (pdsTimeBase h mi s us ++ [90])).length := by
        rw [dateT_length y m d (by omega) (by omega) (by omega)]; simp; omega
      have hz : endsWith (dateT y m d (pdsTimeBase h mi s us ++ [90])) [90] = true := by
        rw [dateT_eq_append]; exact endsWith_snoc _ 90
      unfold decodeDatetimeBase
      rw [date_formats_fail g hgd _ hlen]
      simp only [hz, if_true]
      have htimes : firstSome (strptime (dateT y m d (pdsTimeBase h mi s us ++ [90]))) g.timeFormats = none := by
        rw [dateT_head3 y m d (by omega)]
        exact time_formats_fail g hgt _ _ _ (by omega) (Nat.mod_lt _ (by omega)) (Nat.mod_lt _ (by omega)) _
      rw [htimes, hdt, hshape]
      simp only [List.append_assoc, List.cons_append]
      rw [firstSome_cons_none _ _ _ (strptime_leaves _ _ _ compile_DT_HM _ 58
        (pad s 2 ++ 46 :: (pad (us / 1000) 3 ++ [90]))
        (pre _ _ _ _ (match_HM h mi hh hm (58 :: (pad s 2 ++ 46 :: (pad (us / 1000) 3 ++ [90]))))))]
      rw [firstSome_cons_none _ _ _ (strptime_fail_of_match_none _ _ _ compile_DT_HMZ
        (pren _ _ (HM_then_lit_fail h mi hh hm 90 dZ [] 58 (pad s 2 ++ 46 :: (pad (us / 1000) 3 ++ [90]))
          (by decide))))]
      rw [firstSome_cons_none _ _ _ (strptime_leaves _ _ _ compile_DT_HMS _ 46 (pad (us / 1000) 3 ++ [90])
        (pre _ _ _ _ (match_HMS h mi s hh hm hs (46 :: (pad (us / 1000) 3 ++ [90])))))]
      rw [firstSome_cons_none _ _ _ (strptime_fail_of_match_none _ _ _ compile_DT_HMSZ
        (pren _ _ (HMS_then_lit_fail h mi s hh hm hs 90 dZ [] 46 (pad (us / 1000) 3 ++ [90]) (by decide))))]
      rw [firstSome_cons_none _ _ _ (strptime_leaves _ _ _ compile_DT_HMSf _ 90 []
        (pre _ _ _ _ (match_HMSf3_rest h mi s (us / 1000) hh hm hs hms [90] (by intro c t h; cases h; omega))))]
      rw [firstSome_cons_some _ _ _ _ (strptime_DT_HMSf3Z y m d h mi s (us / 1000) hd hh hm hs hms)]
      simp [hback]

end Pvl
