import PvlModel.Lemmas.Doy
import PvlModel.Lemmas.OdlZone
namespace Pvl
open Py Enc

/-! ### day-of-year date-times, `YYYY-DDDTHH:MM[:SS[.ffffff]][Z]` -/

def ValidDoy (y j : Nat) : Prop := 1 ≤ y ∧ y ≤ 9999 ∧ 1 ≤ j ∧ j ≤ diy y

theorem diy_le (y : Nat) : diy y ≤ 366 := by unfold diy; split <;> omega

def fmtJT (tf : Str) : Str := fmtYj ++ 84 :: tf
def J3 (r : List Item) : List Item := itemY :: litDash :: itemj :: litT :: r
def doyT (y j : Nat) (rest : Str) : Str := pad y 4 ++ 45 :: (pad j 3 ++ 84 :: rest)
def jCaps (y j : Nat) : List (Field × Str) := [(.Y, pad y 4), (.none, [45]), (.j, pad j 3), (.none, [84])]

theorem compile_JT_HM : compileFmt (fmtJT fmtHM) = some (J3 [itemH, litColon, itemM]) := by
  simp [fmtJT, fmtYj, fmtHM, compileFmt, J3, litDash, litT, litColon]
theorem compile_JT_HMZ : compileFmt (fmtJT fmtHMZ) = some (J3 [itemH, litColon, itemM, litZ]) := by
  simp [fmtJT, fmtYj, fmtHMZ, fmtHM, compileFmt, J3, litDash, litT, litColon, litZ]
theorem compile_JT_HMS : compileFmt (fmtJT fmtHMS) = some (J3 [itemH, litColon, itemM, litColon, itemS]) := by
  simp [fmtJT, fmtYj, fmtHMS, compileFmt, J3, litDash, litT, litColon]
theorem compile_JT_HMSZ :
    compileFmt (fmtJT fmtHMSZ) = some (J3 [itemH, litColon, itemM, litColon, itemS, litZ]) := by
  simp [fmtJT, fmtYj, fmtHMSZ, fmtHMS, compileFmt, J3, litDash, litT, litColon, litZ]
theorem compile_JT_HMSf :
    compileFmt (fmtJT fmtHMSf) = some (J3 [itemH, litColon, itemM, litColon, itemS, litDot, itemf]) := by
  simp [fmtJT, fmtYj, fmtHMSf, compileFmt, J3, litDash, litT, litColon, litDot]
theorem compile_JT_HMSfZ :
    compileFmt (fmtJT fmtHMSfZ) = some (J3 [itemH, litColon, itemM, litColon, itemS, litDot, itemf, litZ]) := by
  simp [fmtJT, fmtYj, fmtHMSfZ, fmtHMSf, compileFmt, J3, litDash, litT, litColon, litDot, litZ]

theorem j_prefix (y j : Nat) (hy : y < 10000) (h1 : 1 ≤ j) (h2 : j ≤ 366) (r : List Item) (rest fin : Str)
    (caps : List (Field × Str)) (hk : matchItems r rest = some (caps, fin)) :
    matchItems (J3 r) (doyT y j rest) = some (jCaps y j ++ caps, fin) :=
  Y_field y hy _ _ _ _ (dash_field _ _ _ _ (j_field j h1 h2 _ _ _ _ (T_field _ _ _ _ hk)))

theorem j_prefix_none (y j : Nat) (hy : y < 10000) (hj : j < 1000) (r : List Item) (rest : Str)
    (hk : matchItems r rest = none) : matchItems (J3 r) (doyT y j rest) = none := by
  unfold J3 doyT
  apply Y_field_none y hy
  apply lit_cont_none 45 (by decide)
  rw [pad3 j hj, matchItems_cons]
  apply matchAlts_none_of_drops
  intro a ha
  rcases itemj_len a ha with e | e | e <;> rw [e]
  · exact lit_fail 84 _ (d84 _ (Nat.mod_lt _ (by omega))) _ _
  · exact lit_fail 84 _ (d84 _ (Nat.mod_lt _ (by omega))) _ _
  · exact lit_cont_none' 84 _ _ hk

theorem doyT_length (y j : Nat) (hy : y < 10000) (hj : j < 1000) (rest : Str) :
    (doyT y j rest).length = 9 + rest.length := by
  unfold doyT
  rw [pad4 y hy, pad3 j hj]
  simp; omega

theorem doyT_head3 (y j : Nat) (hy : y < 10000) (rest : Str) :
    doyT y j rest = (48 + y / 1000) :: (48 + y / 100 % 10) :: (48 + y / 10 % 10) ::
      ((48 + y % 10) :: 45 :: (pad j 3 ++ 84 :: rest)) := by
  unfold doyT; rw [pad4 y hy]; rfl

/-- a calendar date-time format (`%Y-%m-%dT…`) cannot match a day-of-year date-time text -/
theorem ymdDT_fail_on_doy (y j : Nat) (hy : y < 10000) (hj : j < 1000) (rest tf : Str) :
    strptime (doyT y j rest) (fmtDT tf) = none := by
  unfold strptime
  cases hc : compileFmt tf with
  | none => simp [fmtDT, fmtYmd, compileFmt, hc]
  | some items =>
    have hcomp : compileFmt (fmtDT tf) = some (D5 items) := by
      simp [fmtDT, fmtYmd, compileFmt, hc, D5, litDash, litT]
    rw [hcomp]
    have hmatch : matchItems (D5 items) (doyT y j rest) = none := by
      unfold D5 doyT
      apply Y_field_none y hy
      apply lit_cont_none 45 (by decide)
      rw [pad3 j hj]
      apply short_item_none itemm itemm_short
      · exact lit_fail 45 _ (d45 _ (Nat.mod_lt _ (by omega))) _ _
      · exact lit_fail 45 _ (d45 _ (Nat.mod_lt _ (by omega))) _ _
    simp [hmatch]

/-- the tables list the six calendar date-time formats, then the six day-of-year ones -/
def DoyDtTablesOK (g : Grammar) : Bool :=
  g.dateFormats.all (fun f => match compileFmt f with
    | some items => decide ((items.map maxAlt).sum ≤ 11) | none => true) &&
  g.timeFormats.all (fun f => f.take 3 == [37, 72, 58]) &&
  g.datetimeFormats == [fmtDT fmtHM, fmtDT fmtHMZ, fmtDT fmtHMS, fmtDT fmtHMSZ, fmtDT fmtHMSf, fmtDT fmtHMSfZ] ++
    [fmtJT fmtHM, fmtJT fmtHMZ, fmtJT fmtHMS, fmtJT fmtHMSZ, fmtJT fmtHMSf, fmtJT fmtHMSfZ]

theorem strptime_JT_HM (y j h mi : Nat) (hd : ValidDoy y j) (hh : h < 24) (hm : mi < 60) :
    strptime (doyT y j (pad h 2 ++ 58 :: pad mi 2)) (fmtJT fmtHM) = some ⟨y, (monthDayOf y j).1, (monthDayOf y j).2, h, mi, 0, 0⟩ := by
  obtain ⟨hy1, hy2, hj1, hj2⟩ := hd
  have hj366 := diy_le y
  have e1 : (y == 0 || decide (y > 9999)) = false := by simp; omega
  have e2 : (j ≤ if isLeap y then 366 else 365) := hj2
  unfold strptime
  rw [compile_JT_HM]
  have hm' := match_HM h mi hh hm []
  simp only [List.append_nil] at hm'
  simp only [j_prefix y j (by omega) hj1 (by omega) _ _ _ _ hm']
  simp [jCaps, field?, List.find?, field_beq, natOf_pad, e1, e2]

theorem strptime_JT_HMS (y j h mi s : Nat) (hd : ValidDoy y j) (hh : h < 24) (hm : mi < 60) (hs : s < 60) :
    strptime (doyT y j (pad h 2 ++ 58 :: (pad mi 2 ++ 58 :: pad s 2))) (fmtJT fmtHMS) =
      some ⟨y, (monthDayOf y j).1, (monthDayOf y j).2, h, mi, s, 0⟩ := by
  obtain ⟨hy1, hy2, hj1, hj2⟩ := hd
  have hj366 := diy_le y
  have e1 : (y == 0 || decide (y > 9999)) = false := by simp; omega
  have e2 : (j ≤ if isLeap y then 366 else 365) := hj2
  unfold strptime
  rw [compile_JT_HMS]
  have hm' := match_HMS h mi s hh hm hs []
  simp only [List.append_nil] at hm'
  simp only [j_prefix y j (by omega) hj1 (by omega) _ _ _ _ hm']
  have e : ¬ s > 59 := by omega
  simp [jCaps, field?, List.find?, field_beq, natOf_pad, e1, e2, e]

theorem strptime_JT_HMSf (y j h mi s us : Nat) (hd : ValidDoy y j) (hh : h < 24) (hm : mi < 60)
    (hs : s < 60) (hus : us < 1000000) :
    strptime (doyT y j (pad h 2 ++ 58 :: (pad mi 2 ++ 58 :: (pad s 2 ++ 46 :: pad us 6)))) (fmtJT fmtHMSf) =
      some ⟨y, (monthDayOf y j).1, (monthDayOf y j).2, h, mi, s, us⟩ := by
  obtain ⟨hy1, hy2, hj1, hj2⟩ := hd
  have hj366 := diy_le y
  have e1 : (y == 0 || decide (y > 9999)) = false := by simp; omega
  have e2 : (j ≤ if isLeap y then 366 else 365) := hj2
  unfold strptime
  rw [compile_JT_HMSf]
  have hm' := match_HMSf h mi s us hh hm hs hus
  simp only [List.append_nil] at hm'
  simp only [j_prefix y j (by omega) hj1 (by omega) _ _ _ _ hm']
  have e : ¬ s > 59 := by omega
  have hl := length_pad us 6 (by omega) (by omega)
  simp [jCaps, field?, List.find?, field_beq, natOf_pad, e1, e2, e, hl]


theorem strptime_JT_HMZ (y j h mi : Nat) (hd : ValidDoy y j) (hh : h < 24) (hm : mi < 60) :
    strptime (doyT y j (pad h 2 ++ 58 :: (pad mi 2 ++ [90]))) (fmtJT fmtHMZ) = some ⟨y, (monthDayOf y j).1, (monthDayOf y j).2, h, mi, 0, 0⟩ := by
  obtain ⟨hy1, hy2, hj1, hj2⟩ := hd
  have hj366 := diy_le y
  have e1 : (y == 0 || decide (y > 9999)) = false := by simp; omega
  have e2 : (j ≤ if isLeap y then 366 else 365) := hj2
  unfold strptime
  rw [compile_JT_HMZ]
  have hm' : matchItems [itemH, litColon, itemM, litZ] (pad h 2 ++ 58 :: (pad mi 2 ++ [90])) =
      some ([(.H, pad h 2), (.none, [58]), (.M, pad mi 2), (.none, [90])], []) :=
    H_field h hh _ _ _ _ (colon_field _ _ _ _ (M_field mi hm _ _ _ _ (Z_field _ _ _ _ (matchItems_nil []))))
  simp only [j_prefix y j (by omega) hj1 (by omega) _ _ _ _ hm']
  simp [jCaps, field?, List.find?, field_beq, natOf_pad, e1, e2]

theorem strptime_JT_HMSZ (y j h mi s : Nat) (hd : ValidDoy y j) (hh : h < 24) (hm : mi < 60) (hs : s < 60) :
    strptime (doyT y j (pad h 2 ++ 58 :: (pad mi 2 ++ 58 :: (pad s 2 ++ [90])))) (fmtJT fmtHMSZ) =
      some ⟨y, (monthDayOf y j).1, (monthDayOf y j).2, h, mi, s, 0⟩ := by
  obtain ⟨hy1, hy2, hj1, hj2⟩ := hd
  have hj366 := diy_le y
  have e1 : (y == 0 || decide (y > 9999)) = false := by simp; omega
  have e2 : (j ≤ if isLeap y then 366 else 365) := hj2
  unfold strptime
  rw [compile_JT_HMSZ]
  have hm' : matchItems [itemH, litColon, itemM, litColon, itemS, litZ]
      (pad h 2 ++ 58 :: (pad mi 2 ++ 58 :: (pad s 2 ++ [90]))) =
      some ([(.H, pad h 2), (.none, [58]), (.M, pad mi 2), (.none, [58]), (.S, pad s 2), (.none, [90])], []) :=
    H_field h hh _ _ _ _ (colon_field _ _ _ _ (M_field mi hm _ _ _ _ (colon_field _ _ _ _
      (S_field s hs _ _ _ _ (Z_field _ _ _ _ (matchItems_nil []))))))
  simp only [j_prefix y j (by omega) hj1 (by omega) _ _ _ _ hm']
  have e : ¬ s > 59 := by omega
  simp [jCaps, field?, List.find?, field_beq, natOf_pad, e1, e2, e]

theorem strptime_JT_HMSfZ (y j h mi s us : Nat) (hd : ValidDoy y j) (hh : h < 24) (hm : mi < 60)
    (hs : s < 60) (hus : us < 1000000) :
    strptime (doyT y j (pad h 2 ++ 58 :: (pad mi 2 ++ 58 :: (pad s 2 ++ 46 :: (pad us 6 ++ [90])))))
      (fmtJT fmtHMSfZ) = some ⟨y, (monthDayOf y j).1, (monthDayOf y j).2, h, mi, s, us⟩ := by
  obtain ⟨hy1, hy2, hj1, hj2⟩ := hd
  have hj366 := diy_le y
  have e1 : (y == 0 || decide (y > 9999)) = false := by simp; omega
  have e2 : (j ≤ if isLeap y then 366 else 365) := hj2
  unfold strptime
  rw [compile_JT_HMSfZ]
  have hm' : matchItems [itemH, litColon, itemM, litColon, itemS, litDot, itemf, litZ]
      (pad h 2 ++ 58 :: (pad mi 2 ++ 58 :: (pad s 2 ++ 46 :: (pad us 6 ++ [90])))) =
      some ([(.H, pad h 2), (.none, [58]), (.M, pad mi 2), (.none, [58]), (.S, pad s 2), (.none, [46]),
        (.f, pad us 6), (.none, [90])], []) :=
    H_field h hh _ _ _ _ (colon_field _ _ _ _ (M_field mi hm _ _ _ _ (colon_field _ _ _ _
      (S_field s hs _ _ _ _ (dot_field _ _ _ _ (f_field us hus _ _ _ _ (Z_field _ _ _ _ (matchItems_nil []))))))))
  simp only [j_prefix y j (by omega) hj1 (by omega) _ _ _ _ hm']
  have e : ¬ s > 59 := by omega
  have hl := length_pad us 6 (by omega) (by omega)
  simp [jCaps, field?, List.find?, field_beq, natOf_pad, e1, e2, e, hl]


/-- **`decode_datetime` reads `YYYY-DDDTHH:MM[:SS[.ffffff]]`** -/
theorem decodeDatetimeBase_doy_datetime (g : Grammar) (hg : DoyDtTablesOK g = true) (y j h mi s us : Nat)
    (hd : ValidDoy y j) (hv : ValidTime h mi s us) :
    decodeDatetimeBase g (doyT y j (encodeTimeBase h mi s us)) =
      some (.datetime y (monthDayOf y j).1 (monthDayOf y j).2 h mi s us (defaultTz g)) := by
  obtain ⟨hh, hm, hs, hus⟩ := hv
  have hd' := hd
  obtain ⟨hy1, hy2, hj1, hj2⟩ := hd'
  have hj366 := diy_le y
  simp only [DoyDtTablesOK, Bool.and_eq_true, beq_iff_eq] at hg
  obtain ⟨⟨hgd, hgt⟩, hgdt⟩ := hg
  have hymd : ∀ text', firstSome (strptime (doyT y j text'))
      [fmtDT fmtHM, fmtDT fmtHMZ, fmtDT fmtHMS, fmtDT fmtHMSZ, fmtDT fmtHMSf, fmtDT fmtHMSfZ] = none := by
    intro text'
    apply firstSome_none
    intro f hf
    simp only [List.mem_cons, List.mem_nil_iff, or_false] at hf
    rcases hf with rfl | rfl | rfl | rfl | rfl | rfl <;> exact ymdDT_fail_on_doy y j (by omega) (by omega) _ _
  have hdt := hgdt
  have hlen : 12 ≤ (doyT y j (encodeTimeBase h mi s us)).length := by
    rw [doyT_length y j (by omega) (by omega)]
    have := encodeTimeBase_len h mi s us
    omega
  have hz : endsWith (doyT y j (encodeTimeBase h mi s us)) [90] = false := by
    have e : doyT y j (encodeTimeBase h mi s us) =
        (pad y 4 ++ 45 :: (pad j 3 ++ [84])) ++ encodeTimeBase h mi s us := by
      simp [doyT]
    rw [e, encodeTimeBase_eq]
    unfold timeTail
    split
    · have : (pad y 4 ++ 45 :: (pad j 3 ++ [84])) ++ (pad h 2 ++ 58 :: (pad mi 2 ++ 58 :: (pad s 2 ++ 46 :: pad us 6))) =
          ((pad y 4 ++ 45 :: (pad j 3 ++ [84])) ++ (pad h 2 ++ 58 :: (pad mi 2 ++ 58 :: (pad s 2 ++ [46])))) ++ pad us 6 := by simp
      rw [this]; exact endsWith_digits _ _ (pad_ne_nil us 6) (allDigits_pad us 6)
    · split
      · have : (pad y 4 ++ 45 :: (pad j 3 ++ [84])) ++ (pad h 2 ++ 58 :: (pad mi 2 ++ 58 :: pad s 2)) =
            ((pad y 4 ++ 45 :: (pad j 3 ++ [84])) ++ (pad h 2 ++ 58 :: (pad mi 2 ++ [58]))) ++ pad s 2 := by simp
        rw [this]; exact endsWith_digits _ _ (pad_ne_nil s 2) (allDigits_pad s 2)
      · have : (pad y 4 ++ 45 :: (pad j 3 ++ [84])) ++ (pad h 2 ++ 58 :: (pad mi 2 ++ [])) =
            ((pad y 4 ++ 45 :: (pad j 3 ++ [84])) ++ (pad h 2 ++ [58])) ++ pad mi 2 := by simp
        rw [this]; exact endsWith_digits _ _ (pad_ne_nil mi 2) (allDigits_pad mi 2)
  unfold decodeDatetimeBase
  rw [date_formats_fail g hgd _ hlen]
  simp only [hz, Bool.false_eq_true, if_false]
  have htimes : firstSome (strptime (doyT y j (encodeTimeBase h mi s us))) g.timeFormats = none := by
    rw [doyT_head3 y j (by omega)]
    exact time_formats_fail g hgt _ _ _ (by omega) (Nat.mod_lt _ (by omega)) (Nat.mod_lt _ (by omega)) _
  rw [htimes, hdt, firstSome_append _ _ _ (hymd _), encodeTimeBase_eq]
  unfold timeTail
  by_cases h1 : us = 0
  · by_cases h2 : s = 0
    · subst h1 h2
      simp only [bne_self_eq_false, Bool.false_eq_true, if_false, List.append_nil]
      rw [firstSome_cons_some _ _ _ _ (strptime_JT_HM y j h mi hd hh hm)]
      simp [defaultTz]
    · subst h1
      have hsne : (s != 0) = true := by simp [h2]
      simp only [bne_self_eq_false, Bool.false_eq_true, if_false, hsne, if_true]
      rw [firstSome_cons_none _ _ _ (strptime_leaves _ _ _ compile_JT_HM _ 58 (pad s 2)
        (j_prefix y j (by omega) hj1 (by omega) _ _ _ _ (match_HM h mi hh hm (58 :: pad s 2))))]
      rw [firstSome_cons_none _ _ _ (strptime_fail_of_match_none _ _ _ compile_JT_HMZ
        (j_prefix_none y j (by omega) (by omega) _ _
          (HM_then_lit_fail h mi hh hm 90 dZ [] 58 (pad s 2) (by decide))))]
      rw [firstSome_cons_some _ _ _ _ (strptime_JT_HMS y j h mi s hd hh hm hs)]
      simp [defaultTz]
  · have hune : (us != 0) = true := by simp [h1]
    simp only [hune, if_true]
    rw [firstSome_cons_none _ _ _ (strptime_leaves _ _ _ compile_JT_HM _ 58 (pad s 2 ++ 46 :: pad us 6)
      (j_prefix y j (by omega) hj1 (by omega) _ _ _ _
        (match_HM h mi hh hm (58 :: (pad s 2 ++ 46 :: pad us 6)))))]
    rw [firstSome_cons_none _ _ _ (strptime_fail_of_match_none _ _ _ compile_JT_HMZ
      (j_prefix_none y j (by omega) (by omega) _ _
        (HM_then_lit_fail h mi hh hm 90 dZ [] 58 (pad s 2 ++ 46 :: pad us 6) (by decide))))]
    rw [firstSome_cons_none _ _ _ (strptime_leaves _ _ _ compile_JT_HMS _ 46 (pad us 6)
      (j_prefix y j (by omega) hj1 (by omega) _ _ _ _
        (match_HMS h mi s hh hm hs (46 :: pad us 6))))]
    rw [firstSome_cons_none _ _ _ (strptime_fail_of_match_none _ _ _ compile_JT_HMSZ
      (j_prefix_none y j (by omega) (by omega) _ _
        (HMS_then_lit_fail h mi s hh hm hs 90 dZ [] 46 (pad us 6) (by decide))))]
    rw [firstSome_cons_some _ _ _ _ (strptime_JT_HMSf y j h mi s us hd hh hm hs hus)]
    simp [defaultTz]


/-- … and with `Z` -/
theorem decodeDatetimeBase_doy_datetimeZ (g : Grammar) (hg : DoyDtTablesOK g = true) (y j h mi s us : Nat)
    (hd : ValidDoy y j) (hv : ValidTime h mi s us) :
    decodeDatetimeBase g (doyT y j (encodeTimeBase h mi s us ++ [90])) =
      some (.datetime y (monthDayOf y j).1 (monthDayOf y j).2 h mi s us (some 0)) := by
  obtain ⟨hh, hm, hs, hus⟩ := hv
  have hd' := hd
  obtain ⟨hy1, hy2, hj1, hj2⟩ := hd'
  have hj366 := diy_le y
  simp only [DoyDtTablesOK, Bool.and_eq_true, beq_iff_eq] at hg
  obtain ⟨⟨hgd, hgt⟩, hgdt⟩ := hg
  have hymd : ∀ text', firstSome (strptime (doyT y j text'))
      [fmtDT fmtHM, fmtDT fmtHMZ, fmtDT fmtHMS, fmtDT fmtHMSZ, fmtDT fmtHMSf, fmtDT fmtHMSfZ] = none := by
    intro text'
    apply firstSome_none
    intro f hf
    simp only [List.mem_cons, List.mem_nil_iff, or_false] at hf
    rcases hf with rfl | rfl | rfl | rfl | rfl | rfl <;> exact ymdDT_fail_on_doy y j (by omega) (by omega) _ _
  have hdt := hgdt
  have hlen : 12 ≤ (doyT y j (encodeTimeBase h mi s us ++ [90])).length := by
    rw [doyT_length y j (by omega) (by omega)]
    have := encodeTimeBase_len h mi s us
    simp; omega
  have hz : endsWith (doyT y j (encodeTimeBase h mi s us ++ [90])) [90] = true := by
    have e : doyT y j (encodeTimeBase h mi s us ++ [90]) =
        (pad y 4 ++ 45 :: (pad j 3 ++ 84 :: encodeTimeBase h mi s us)) ++ [90] := by
      simp [doyT]
    rw [e]; exact endsWith_snoc _ 90
  unfold decodeDatetimeBase
  rw [date_formats_fail g hgd _ hlen]
  simp only [hz, if_true]
  have htimes : firstSome (strptime (doyT y j (encodeTimeBase h mi s us ++ [90]))) g.timeFormats = none := by
    rw [doyT_head3 y j (by omega)]
    exact time_formats_fail g hgt _ _ _ (by omega) (Nat.mod_lt _ (by omega)) (Nat.mod_lt _ (by omega)) _
  rw [htimes, hdt, firstSome_append _ _ _ (hymd _), encodeTimeBase_eq]
  unfold timeTail
  by_cases h1 : us = 0
  · by_cases h2 : s = 0
    · subst h1 h2
      simp only [bne_self_eq_false, Bool.false_eq_true, if_false, List.append_nil, List.append_assoc,
        List.cons_append]
      rw [firstSome_cons_none _ _ _ (strptime_leaves _ _ _ compile_JT_HM _ 90 []
        (j_prefix y j (by omega) hj1 (by omega) _ _ _ _ (match_HM h mi hh hm [90])))]
      rw [firstSome_cons_some _ _ _ _ (strptime_JT_HMZ y j h mi hd hh hm)]
    · subst h1
      have hsne : (s != 0) = true := by simp [h2]
      simp only [bne_self_eq_false, Bool.false_eq_true, if_false, hsne, if_true, List.append_assoc,
        List.cons_append]
      rw [firstSome_cons_none _ _ _ (strptime_leaves _ _ _ compile_JT_HM _ 58 (pad s 2 ++ [90])
        (j_prefix y j (by omega) hj1 (by omega) _ _ _ _ (match_HM h mi hh hm (58 :: (pad s 2 ++ [90])))))]
      rw [firstSome_cons_none _ _ _ (strptime_fail_of_match_none _ _ _ compile_JT_HMZ
        (j_prefix_none y j (by omega) (by omega) _ _
          (HM_then_lit_fail h mi hh hm 90 dZ [] 58 (pad s 2 ++ [90]) (by decide))))]
      rw [firstSome_cons_none _ _ _ (strptime_leaves _ _ _ compile_JT_HMS _ 90 []
        (j_prefix y j (by omega) hj1 (by omega) _ _ _ _ (match_HMS h mi s hh hm hs [90])))]
      rw [firstSome_cons_some _ _ _ _ (strptime_JT_HMSZ y j h mi s hd hh hm hs)]
  · have hune : (us != 0) = true := by simp [h1]
    simp only [hune, if_true, List.append_assoc, List.cons_append]
    rw [firstSome_cons_none _ _ _ (strptime_leaves _ _ _ compile_JT_HM _ 58 (pad s 2 ++ 46 :: (pad us 6 ++ [90]))
      (j_prefix y j (by omega) hj1 (by omega) _ _ _ _
        (match_HM h mi hh hm (58 :: (pad s 2 ++ 46 :: (pad us 6 ++ [90]))))))]
    rw [firstSome_cons_none _ _ _ (strptime_fail_of_match_none _ _ _ compile_JT_HMZ
      (j_prefix_none y j (by omega) (by omega) _ _
        (HM_then_lit_fail h mi hh hm 90 dZ [] 58 (pad s 2 ++ 46 :: (pad us 6 ++ [90])) (by decide))))]
    rw [firstSome_cons_none _ _ _ (strptime_leaves _ _ _ compile_JT_HMS _ 46 (pad us 6 ++ [90])
      (j_prefix y j (by omega) hj1 (by omega) _ _ _ _
        (match_HMS h mi s hh hm hs (46 :: (pad us 6 ++ [90])))))]
    rw [firstSome_cons_none _ _ _ (strptime_fail_of_match_none _ _ _ compile_JT_HMSZ
      (j_prefix_none y j (by omega) (by omega) _ _
        (HMS_then_lit_fail h mi s hh hm hs 90 dZ [] 46 (pad us 6 ++ [90]) (by decide))))]
    rw [firstSome_cons_none _ _ _ (strptime_leaves _ _ _ compile_JT_HMSf _ 90 []
      (j_prefix y j (by omega) hj1 (by omega) _ _ _ _
        (match_HMSf_rest h mi s us hh hm hs hus [90])))]
    rw [firstSome_cons_some _ _ _ _ (strptime_JT_HMSfZ y j h mi s us hd hh hm hs hus)]


end Pvl
