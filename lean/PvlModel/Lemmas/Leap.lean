import PvlModel.Lemmas.OdlZone
namespace Pvl
open Py Enc

/-! ### leap seconds: `HH:MM:60` -/

/-- the text of a time in the 61st second -/
def leapText (h mi : Nat) : Str := pad h 2 ++ 58 :: (pad mi 2 ++ [58, 54, 48])

/-- `%S` on `60`: the first alternative takes both digits -/
theorem S60_field (r : List Item) (rest fin : Str) (caps : List (Field × Str))
    (hk : matchItems r rest = some (caps, fin)) :
    matchItems (itemS :: r) (54 :: 48 :: rest) = some ((.S, [54, 48]) :: caps, fin) := by
  rw [matchItems_cons]
  exact matchAlts_first _ _ _ _ _ [54, 48] rest fin caps (by simp [matchCCs, dg, ccr]) hk

/-- `%S` on `60` fails when what follows fails after `60` and after `6` -/
theorem S60_field_none (r : List Item) (rest : Str)
    (h2 : matchItems r rest = none) (h1 : matchItems r (48 :: rest) = none) :
    matchItems (itemS :: r) (54 :: 48 :: rest) = none := by
  rw [matchItems_cons]
  unfold itemS
  have hd : Py.isDecimal 54 = true := by decide
  rw [matchAlts_cont_none _ _ _ _ _ [54, 48] rest (by simp [matchCCs, dg, ccr]) h2]
  rw [matchAlts_skip _ _ _ _ _ (by simp [matchCCs, dg, ccr])]
  rw [matchAlts_cont_none _ _ _ _ _ [54] (48 :: rest) (by simp [matchCCs, CC.ok, hd]) h1]
  exact matchAlts_nil _ _ _

theorem match_HMS60 (h mi : Nat) (hh : h < 24) (hm : mi < 60) (rest : Str) :
    matchItems [itemH, litColon, itemM, litColon, itemS] (pad h 2 ++ 58 :: (pad mi 2 ++ 58 :: 54 :: 48 :: rest)) =
      some ([(.H, pad h 2), (.none, [58]), (.M, pad mi 2), (.none, [58]), (.S, [54, 48])], rest) :=
  H_field h hh _ _ _ _ (colon_field _ _ _ _ (M_field mi hm _ _ _ _
    (colon_field _ _ _ _ (S60_field _ _ _ _ (matchItems_nil rest)))))

/-- `%H:%M:%S` matches `HH:MM:60` and `strptime` then refuses the second 60 -/
theorem strptime_HMS60 (h mi : Nat) (hh : h < 24) (hm : mi < 60) :
    strptime (leapText h mi) fmtHMS = none := by
  unfold strptime leapText
  rw [compile_HMS]
  have := match_HMS60 h mi hh hm []
  simp only [this]
  have e60 : natOf [54, 48] = some 60 := by decide
  simp [field?, List.find?, field_beq, natOf_pad, daysInMonth, e60]

/-- `HH:MM:60` followed by a literal the format wants: fails when the text ends there -/
theorem HMS60_then_lit_fail_nil (h mi : Nat) (hh : h < 24) (hm : mi < 60) (ch : Nat)
    (hch : ∀ k, k < 10 → lowerAscii1 (48 + k) ≠ lowerAscii1 ch) (r : List Item) :
    matchItems (itemH :: litColon :: itemM :: litColon :: itemS :: ⟨.none, [[.lit ch]]⟩ :: r)
      (pad h 2 ++ 58 :: (pad mi 2 ++ [58, 54, 48])) = none := by
  apply H_field_none h hh
  · apply lit_cont_none 58 (by decide)
    apply M_field_none mi hm
    · apply lit_cont_none 58 (by decide)
      exact S60_field_none _ _ (lit_fail_nil ch r) (lit_fail ch 48 (hch 0 (by omega)) r [])
    · exact lit_fail 58 _ (d58 _ (Nat.mod_lt _ (by omega))) _ _
  · exact lit_fail 58 _ (d58 _ (Nat.mod_lt _ (by omega))) _ _

theorem leap_time_formats_fail (h mi : Nat) (hh : h < 24) (hm : mi < 60) :
    firstSome (strptime (leapText h mi)) [fmtHM, fmtHMS, fmtHMSf, fmtHMZ, fmtHMSZ, fmtHMSfZ] = none := by
  have e : leapText h mi = pad h 2 ++ 58 :: (pad mi 2 ++ 58 :: [54, 48]) := rfl
  have e' : leapText h mi = pad h 2 ++ 58 :: (pad mi 2 ++ [58, 54, 48]) := rfl
  rw [firstSome_cons_none _ _ _ (by rw [e]; exact strptime_HM_more h mi hh hm 58 [54, 48])]
  rw [firstSome_cons_none _ _ _ (strptime_HMS60 h mi hh hm)]
  rw [firstSome_cons_none _ _ _ (strptime_fail_of_match_none _ _ _ compile_HMSf
    (by rw [e']; exact HMS60_then_lit_fail_nil h mi hh hm 46 d46 [itemf]))]
  rw [firstSome_cons_none _ _ _ (strptime_fail_of_match_none _ _ _ compile_HMZ
    (by rw [e]; exact HM_then_lit_fail h mi hh hm 90 dZ [] 58 [54, 48] (by decide)))]
  rw [firstSome_cons_none _ _ _ (strptime_fail_of_match_none _ _ _ compile_HMSZ
    (by rw [e']; exact HMS60_then_lit_fail_nil h mi hh hm 90 dZ []))]
  rw [firstSome_cons_none _ _ _ (strptime_fail_of_match_none _ _ _ compile_HMSfZ
    (by rw [e']; exact HMS60_then_lit_fail_nil h mi hh hm 46 d46 [itemf, litZ]))]
  rfl

theorem leapTimePart_leapText (h mi : Nat) (hh : h < 24) (hm : mi < 60) : leapTimePart (leapText h mi) = true := by
  unfold leapText
  rw [pad2 h (by omega), pad2 mi (by omega)]
  have a : h / 10 = 0 ∨ h / 10 = 1 ∨ h / 10 = 2 := by omega
  have dm : Py.isDecimal (48 + mi % 10) = true := isDecimal_digit _ (Nat.mod_lt _ (by omega))
  have dh : Py.isDecimal (48 + h % 10) = true := isDecimal_digit _ (Nat.mod_lt _ (by omega))
  have d5 : dd 0 5 (48 + mi / 10) = true := by simp [dd]; omega
  simp only [leapTimePart, List.cons_append, List.nil_append]
  rcases a with a | a | a
  · simp [a, dh, dm, d5]
  · simp [a, dh, dm, d5]
  · have : dd 0 3 (48 + h % 10) = true := by simp [dd]; omega
    simp [a, dh, dm, d5, this]

/-- **`decode_datetime` on `HH:MM:60`**: a string in the dialects that know leap seconds, refused in the others -/
theorem decodeDatetimeBase_leap (g : Grammar) (hg : TimeTablesAll g = true) (h mi : Nat) (hh : h < 24) (hm : mi < 60) :
    decodeDatetimeBase g (leapText h mi) =
      if isLeapSeconds g (leapText h mi) then some (.str (leapText h mi)) else none := by
  simp only [TimeTablesAll, Bool.and_eq_true, beq_iff_eq] at hg
  obtain ⟨⟨hd, ht⟩, hdt⟩ := hg
  have hshape : ∃ t, leapText h mi = (48 + h / 10) :: (48 + h % 10) :: 58 :: t := by
    unfold leapText; rw [pad2_cons h (by omega)]; exact ⟨_, rfl⟩
  obtain ⟨t, hshape⟩ := hshape
  unfold decodeDatetimeBase
  have e1 : firstSome (strptime (leapText h mi)) g.dateFormats = none := by
    rw [hshape]; exact Y_formats_fail _ hd _ _ _
  have e2 : firstSome (strptime (leapText h mi)) g.timeFormats = none := by
    rw [ht]; exact leap_time_formats_fail h mi hh hm
  have e3 : firstSome (strptime (leapText h mi)) g.datetimeFormats = none := by
    rw [hshape]; exact Y_formats_fail _ hdt _ _ _
  rw [e1]
  simp only [e2, e3]

end Pvl
