import PvlModel.Lemmas.DateTime
namespace Pvl
open Py Enc

/-! ### day-of-year dates, `YYYY-DDD` -/

def fmtYj : Str := [37, 89, 45, 37, 106]

theorem compile_yj : compileFmt fmtYj = some [itemY, litDash, itemj] := by
  simp [fmtYj, compileFmt, litDash]

/-- days in year `y` -/
def diy (y : Nat) : Nat := if isLeap y then 366 else 365

/-- `%j` on a zero-padded day of the year takes all three digits -/
theorem j_field (j : Nat) (h1 : 1 ≤ j) (h2 : j ≤ 366) (r : List Item) (rest fin : Str) (caps : List (Field × Str))
    (hk : matchItems r rest = some (caps, fin)) :
    matchItems (itemj :: r) (pad j 3 ++ rest) = some ((.j, pad j 3) :: caps, fin) := by
  rw [matchItems_cons, pad3 j (by omega)]
  have hd3 := isDecimal_digit (j % 10) (Nat.mod_lt _ (by omega))
  have hd2 := isDecimal_digit (j / 10 % 10) (Nat.mod_lt _ (by omega))
  unfold itemj
  by_cases a1 : 360 ≤ j
  · -- 36[0-6]
    have e1 : j / 100 = 3 := by omega
    have e2 : j / 10 % 10 = 6 := by omega
    exact matchAlts_first _ _ _ _ _ _ rest fin caps (by simp [matchCCs, dg, ccr, e1, e2]; omega) hk
  · by_cases a2 : 300 ≤ j
    · have e1 : j / 100 = 3 := by omega
      have e2 : j / 10 % 10 ≤ 5 := by omega
      rw [matchAlts_skip _ _ _ _ _ (by simp [matchCCs, dg, ccr, e1]; omega)]
      exact matchAlts_first _ _ _ _ _ _ rest fin caps (by simp [matchCCs, dg, ccr, CC.ok, e1, hd3]; omega) hk
    · by_cases a3 : 100 ≤ j
      · have e1 : j / 100 = 1 ∨ j / 100 = 2 := by omega
        rw [matchAlts_skip _ _ _ _ _ (by rcases e1 with e | e <;> simp [matchCCs, dg, ccr, e])]
        rw [matchAlts_skip _ _ _ _ _ (by rcases e1 with e | e <;> simp [matchCCs, dg, ccr, e])]
        exact matchAlts_first _ _ _ _ _ _ rest fin caps
          (by rcases e1 with e | e <;> simp [matchCCs, dg, ccr, CC.ok, e, hd2, hd3]) hk
      · have e1 : j / 100 = 0 := by omega
        rw [matchAlts_skip _ _ _ _ _ (by simp [matchCCs, dg, ccr, e1])]
        rw [matchAlts_skip _ _ _ _ _ (by simp [matchCCs, dg, ccr, e1])]
        rw [matchAlts_skip _ _ _ _ _ (by simp [matchCCs, dg, ccr, e1])]
        by_cases a4 : 10 ≤ j
        · have e2 : 1 ≤ j / 10 % 10 := by omega
          exact matchAlts_first _ _ _ _ _ _ rest fin caps
            (by simp [matchCCs, dg, ccr, CC.ok, e1, hd3]; omega) hk
        · have e2 : j / 10 % 10 = 0 := by omega
          rw [matchAlts_skip _ _ _ _ _ (by simp [matchCCs, dg, ccr, e1, e2])]
          exact matchAlts_first _ _ _ _ _ _ rest fin caps
            (by simp [matchCCs, dg, ccr, e1, e2]; omega) hk

end Pvl

namespace Pvl
open Py Enc

/-- the text of a day-of-year date -/
def doyText (y j : Nat) : Str := pad y 4 ++ 45 :: pad j 3

theorem strptime_ymd_on_doy (y j : Nat) (hy : y < 10000) (hj : j < 1000) (rest : Str)
    (_hrest : rest = [] ∨ rest = [90]) :
    strptime (pad y 4 ++ 45 :: (pad j 3 ++ rest)) fmtYmd = none := by
  apply strptime_fail_of_match_none _ _ _ compile_ymd
  apply Y_field_none y hy
  apply lit_cont_none 45 (by decide)
  rw [pad3 j hj]
  apply short_item_none itemm itemm_short
  · exact lit_fail 45 _ (d45 _ (Nat.mod_lt _ (by omega))) _ _
  · exact lit_fail 45 _ (d45 _ (Nat.mod_lt _ (by omega))) _ _

theorem field_j (y j : Nat) :
    field? [(Field.Y, pad y 4), (Field.none, [45]), (Field.j, pad j 3)] .j = some (pad j 3) := by
  simp [field?, List.find?, field_beq]

theorem strptime_yj (y j : Nat) (hy1 : 1 ≤ y) (hy2 : y ≤ 9999) (h1 : 1 ≤ j) (h2 : j ≤ diy y) :
    strptime (doyText y j) fmtYj = some ⟨y, (monthDayOf y j).1, (monthDayOf y j).2, 0, 0, 0, 0⟩ := by
  have hj366 : j ≤ 366 := by unfold diy at h2; split at h2 <;> omega
  unfold strptime doyText
  rw [compile_yj]
  have hm : matchItems [itemY, litDash, itemj] (pad y 4 ++ 45 :: (pad j 3 ++ [])) =
      some ([(.Y, pad y 4), (.none, [45]), (.j, pad j 3)], []) :=
    Y_field y (by omega) _ _ _ _ (dash_field _ _ _ _ (j_field j h1 hj366 _ _ _ _ (matchItems_nil [])))
  simp only [List.append_nil] at hm
  simp only [hm]
  have e1 : (y == 0 || decide (y > 9999)) = false := by simp; omega
  have e2 : (j ≤ if isLeap y then 366 else 365) := h2
  simp [field?, List.find?, field_beq, natOf_pad, e1, e2]

end Pvl

namespace Pvl
open Py Enc

/-- the first two date formats are `%Y-%m-%d` and `%Y-%j` -/
def DoyTablesOK (g : Grammar) : Bool := g.dateFormats.take 2 == [fmtYmd, fmtYj]

/-- **`decode_datetime` reads `YYYY-DDD`** as the date with that ordinal day in the year -/
theorem decodeDatetimeBase_doy (g : Grammar) (hg : DoyTablesOK g = true) (y j : Nat) (hy1 : 1 ≤ y) (hy2 : y ≤ 9999)
    (h1 : 1 ≤ j) (h2 : j ≤ diy y) :
    decodeDatetimeBase g (doyText y j) = some (.date y (monthDayOf y j).1 (monthDayOf y j).2) := by
  have hj366 : j ≤ 366 := by unfold diy at h2; split at h2 <;> omega
  simp only [DoyTablesOK, beq_iff_eq] at hg
  have htf : ∃ r, g.dateFormats = fmtYmd :: fmtYj :: r := by
    match hl : g.dateFormats, hg with
    | a :: b :: r, h6 =>
      simp at h6
      obtain ⟨rfl, rfl⟩ := h6
      exact ⟨r, rfl⟩
    | [], h6 => simp at h6
    | [_], h6 => simp at h6
  obtain ⟨r, htf⟩ := htf
  unfold decodeDatetimeBase
  rw [htf]
  have hfail := strptime_ymd_on_doy y j (by omega) (by omega) [] (Or.inl rfl)
  simp only [List.append_nil] at hfail
  rw [firstSome_cons_none _ _ _ (by unfold doyText; exact hfail)]
  rw [firstSome_cons_some _ _ _ _ (strptime_yj y j hy1 hy2 h1 h2)]

theorem dbm_succ (y m : Nat) (hm : 1 ≤ m) : daysBeforeMonth y (m + 1) = daysBeforeMonth y m + daysInMonth y m := by
  cases m with
  | zero => omega
  | succ k => simp [daysBeforeMonth]

theorem dbm_13 (y : Nat) : daysBeforeMonth y 13 = diy y := by
  simp only [daysBeforeMonth, daysInMonth, diy]
  by_cases hl : isLeap y = true <;> simp [hl]

theorem go_spec (y : Nat) : ∀ (fuel m j : Nat), 1 ≤ m → fuel + m = 13 → 1 ≤ j →
    daysBeforeMonth y m + j ≤ daysBeforeMonth y 13 →
    m ≤ (monthDayOf.go y fuel m j).1 ∧ (monthDayOf.go y fuel m j).1 ≤ 12 ∧ 1 ≤ (monthDayOf.go y fuel m j).2 ∧
    (monthDayOf.go y fuel m j).2 ≤ daysInMonth y (monthDayOf.go y fuel m j).1 ∧
    daysBeforeMonth y (monthDayOf.go y fuel m j).1 + (monthDayOf.go y fuel m j).2 = daysBeforeMonth y m + j := by
  intro fuel
  induction fuel with
  | zero => intro m j hm hf hj hle; have : m = 13 := by omega
            subst this; omega
  | succ k ih =>
    intro m j hm hf hj hle
    unfold monthDayOf.go
    by_cases hd : j ≤ daysInMonth y m
    · rw [if_pos hd]
      exact ⟨Nat.le_refl _, by omega, hj, hd, rfl⟩
    · rw [if_neg hd]
      have hs := dbm_succ y m hm
      have := ih (m + 1) (j - daysInMonth y m) (by omega) (by omega) (by omega) (by omega)
      obtain ⟨a, b, c, d, e⟩ := this
      exact ⟨by omega, b, c, d, by omega⟩

/-- **the date `monthDayOf` gives is the one whose ordinal day is `j`**: `days before month m + d = j`, with
    `d` a day of month `m` -/
theorem monthDayOf_spec (y j : Nat) (h1 : 1 ≤ j) (h2 : j ≤ diy y) :
    1 ≤ (monthDayOf y j).1 ∧ (monthDayOf y j).1 ≤ 12 ∧ 1 ≤ (monthDayOf y j).2 ∧
    (monthDayOf y j).2 ≤ daysInMonth y (monthDayOf y j).1 ∧
    daysBeforeMonth y (monthDayOf y j).1 + (monthDayOf y j).2 = j := by
  have h0 : daysBeforeMonth y 1 = 0 := by simp [daysBeforeMonth]
  have := go_spec y 12 1 j (by omega) (by omega) h1 (by rw [dbm_13, h0]; omega)
  unfold monthDayOf
  obtain ⟨a, b, c, d, e⟩ := this
  exact ⟨a, b, c, d, by omega⟩

end Pvl
