import Driver.Util
import PvlModel.Model.Cli
/-! `report` command: renders the pvl_validate report from verdicts. -/
namespace Drv
open Pvl Pvl.Cli

def cpsToS (s : String) : S := (parseCps s).map Char.ofNat

def verdictOf (a b : Char) : Verdict :=
  (a == 'T', if b == 'T' then some true else if b == 'F' then some false else none)

def parseVerdicts : List Char → List Verdict
  | a :: b :: r => verdictOf a b :: parseVerdicts r
  | _ => []

/-- `report <row>*` with row = `<name cps>/<two letters per dialect>`; output: the report as code points -/
def cmdReport (args : List String) : String :=
  let rows : List (S × List Verdict) := args.map (fun a =>
    match a.splitOn "/" with
    | [n, v] => (cpsToS n, parseVerdicts v.toList)
    | _ => ([], []))
  showCps ((report dialectNames rows).map Char.toNat)

/-- `flavor <load> <dump>` -/
def cmdFlavor : List String → String
  | [l, d] =>
    let lo := if l == "ok" then LoadOutcome.ok else if l == "pvl" then .pvlError else .other
    let du := if d == "ok" then DumpOutcome.ok else if d == "refused" then .refused else .other
    let v := flavor lo du
    (if v.1 then "T" else "F") ++ (match v.2 with | some true => "T" | some false => "F" | none => "N")
  | _ => "bad-op"

end Drv
