import PvlModel.Model.Parser
import Driver.Util
/-! JSON rendering of model values / results for the harness. -/
namespace Drv
open Pvl

def jCps (s : Str) : String := "[" ++ ",".intercalate (s.map toString) ++ "]"
def jTz : Option Int → String
  | none => "null"
  | some o => toString o

partial def jVal : Val → String
  | .none => "{\"t\":\"N\"}"
  | .bool b => "{\"t\":\"B\",\"v\":" ++ (if b then "true" else "false") ++ "}"
  | .int i => "{\"t\":\"I\",\"v\":\"" ++ toString i ++ "\"}"
  | .real t => "{\"t\":\"R\",\"v\":" ++ jCps t ++ "}"
  | .str s => "{\"t\":\"S\",\"v\":" ++ jCps s ++ "}"
  | .empty l => "{\"t\":\"Y\",\"v\":" ++ toString l ++ "}"
  | .date y m d => s!"\{\"t\":\"D\",\"v\":[{y},{m},{d}]}"
  | .time h mi s us tz => s!"\{\"t\":\"T\",\"v\":[{h},{mi},{s},{us}],\"tz\":{jTz tz}}"
  | .datetime y m d h mi s us tz => s!"\{\"t\":\"DT\",\"v\":[{y},{m},{d},{h},{mi},{s},{us}],\"tz\":{jTz tz}}"
  | .quant v u => "{\"t\":\"Q\",\"v\":" ++ jVal v ++ ",\"u\":" ++ jCps u ++ "}"
  | .seq l => "{\"t\":\"L\",\"v\":[" ++ ",".intercalate (l.map jVal) ++ "]}"
  | .set f l => "{\"t\":\"" ++ (if f then "FS" else "SET") ++ "\",\"v\":[" ++ ",".intercalate (l.map jVal) ++ "]}"
  | .cont k items =>
    let kk := match k with | .module => "M" | .group => "G" | .object => "O"
    "{\"t\":\"C\",\"k\":\"" ++ kk ++ "\",\"v\":[" ++
      ",".intercalate (items.map fun (n, v) => "[" ++ jCps n ++ "," ++ jVal v ++ "]") ++ "]}"

def jPErr (doc : Str) : PErr → String
  | .lexer p =>
    let (a, b, c) := lexErrAttrs doc p
    s!"\{\"err\":\"LexerError\",\"pos\":{a},\"lineno\":{b},\"colno\":{c}}"
  | .value => "{\"err\":\"ValueError\"}"
  | .parse _ => "{\"err\":\"ParseError\"}"
  | .stop => "{\"err\":\"StopIteration\"}"
  | .unbound => "{\"err\":\"UnboundLocalError\"}"
  | .exc => "{\"err\":\"Exception\"}"
  | .fuel => "{\"err\":\"HANG\"}"

def grammarOf (n : String) : Option Grammar :=
  match n with
  | "pvl" => some Gen.pvl | "odl" => some Gen.odl | "pds" => some Gen.pds
  | "isis" => some Gen.isis | "omni" => some Gen.omni | _ => none

def decKindOf (n : String) : Option DecKind :=
  match n with
  | "pvl" => some .pvl | "odl" => some .odl | "pds" => some .pds | "omni" => some .omni | _ => none

def parserKindOf (n : String) : Option ParserKind :=
  match n with
  | "pvl" => some .pvl | "odl" => some .odl | "omni" => some .omni | _ => none

end Drv
