import PvlModel.Model.Basic
/-! Line-protocol helpers for the driver (not part of the verified model). -/
namespace Drv
open Pvl

def parseCps (s : String) : Str :=
  if s == "-" || s == "" then [] else (s.splitOn ",").filterMap (fun x => x.toNat?)

def showCps (s : Str) : String :=
  if s.isEmpty then "-" else ",".intercalate (s.map toString)

def parseInt? (s : String) : Option Int := s.toInt?

def words (s : String) : List String := (s.splitOn " ").filter (· ≠ "")

end Drv
