import PvlModel.Model.Encoder
import Driver.ValIO
/-! `encode` command: parse a value in prefix-token form and run the encoder model. -/
namespace Drv
open Pvl

def tzOf (s : String) : Option (Option Int) :=
  if s == "-" then some none else (s.toInt?).map some

partial def parseVal : List String → Option (Val × List String)
  | "N" :: r => some (.none, r)
  | "B0" :: r => some (.bool false, r)
  | "B1" :: r => some (.bool true, r)
  | "I" :: i :: r => (i.toInt?).map (fun i => (.int i, r))
  | "R" :: t :: r => some (.real (parseCps t), r)
  | "S" :: t :: r => some (.str (parseCps t), r)
  | "Y" :: l :: r => (l.toInt?).map (fun l => (.empty l, r))
  | "D" :: y :: m :: d :: r => do some (.date (← y.toNat?) (← m.toNat?) (← d.toNat?), r)
  | "T" :: h :: mi :: s :: us :: tz :: r => do
      some (.time (← h.toNat?) (← mi.toNat?) (← s.toNat?) (← us.toNat?) (← tzOf tz), r)
  | "X" :: y :: m :: d :: h :: mi :: s :: us :: tz :: r => do
      some (.datetime (← y.toNat?) (← m.toNat?) (← d.toNat?) (← h.toNat?) (← mi.toNat?) (← s.toNat?)
        (← us.toNat?) (← tzOf tz), r)
  | "Q" :: r => do
      let (v, r1) ← parseVal r
      match r1 with
      | u :: r2 => some (.quant v (parseCps u), r2)
      | [] => none
  | "L" :: n :: r => do
      let (l, r1) ← parseVals (← n.toNat?) r []
      some (.seq l, r1)
  | "F" :: n :: r => do
      let (l, r1) ← parseVals (← n.toNat?) r []
      some (.set true l, r1)
  | "E" :: n :: r => do
      let (l, r1) ← parseVals (← n.toNat?) r []
      some (.set false l, r1)
  | "C" :: k :: n :: r => do
      let kind : CKind ← match k with
        | "M" => some .module | "G" => some .group | "O" => some .object | _ => none
      let (items, r1) ← parseItems (← n.toNat?) r []
      some (.cont kind items, r1)
  | _ => none
where
  parseVals : Nat → List String → List Val → Option (List Val × List String)
    | 0, r, acc => some (acc.reverse, r)
    | n + 1, r, acc => do
      let (v, r1) ← parseVal r
      parseVals n r1 (v :: acc)
  parseItems : Nat → List String → Items → Option (Items × List String)
    | 0, r, acc => some (acc.reverse, r)
    | n + 1, k :: r, acc => do
      let (v, r1) ← parseVal r
      parseItems n r1 ((parseCps k, v) :: acc)
    | _, [], _ => none

def encKindOf (s : String) : Option EncKind :=
  match s with
  | "pvl" => some .pvl | "odl" => some .odl | "pds" => some .pds | "isis" => some .isis | _ => none

def b (s : String) : Bool := s == "1"

/-- `encode kind grammar decoder indent width aggEnd endDelim newline convert tabReplace symQuote trailingZ <module>` -/
def parseEncCfg : List String → Option (EncCfg × List String)
  | k :: gn :: dn :: ind :: w :: ae :: ed :: nl :: cv :: tr :: sq :: tz :: rest => do
    let g ← grammarOf gn
    let dk ← decKindOf dn
    some ({ kind := ← encKindOf k, g := g, d := ⟨g, dk⟩, indent := ← ind.toNat?, width := ← w.toNat?,
            aggregationEnd := b ae, endDelimiter := b ed, newline := parseCps nl,
            convertGroupToObject := b cv, tabReplace := ← tr.toNat?, symbolSingleQuote := b sq,
            timeTrailingZ := b tz }, rest)
  | _ => none

def jEErr : EErr → String
  | .value => "\"ValueError\""
  | .type => "\"TypeError\""

def cmdEncode (args : List String) : String :=
  match parseEncCfg args with
  | none => "bad-op"
  | some (c, rest) =>
    match parseVal rest with
    | some (.cont _ items, []) =>
      let r := Enc.encode c items
      let after := jVal (.cont .module r.after)
      (match r.out with
       | .ok s => "{\"ok\":" ++ jCps s ++ ",\"after\":" ++ after ++ "}"
       | .error e => "{\"fail\":" ++ jEErr e ++ ",\"after\":" ++ after ++ "}")
    | _ => "bad-op"

/-- `encstr <cfg…> <cps>` : encode_string -/
def cmdEncStr (args : List String) : String :=
  match parseEncCfg args with
  | some (c, [s]) =>
    (match Enc.encodeString c (parseCps s) with
     | .ok t => "{\"ok\":" ++ jCps t ++ "}"
     | .error e => "{\"fail\":" ++ jEErr e ++ "}")
  | _ => "bad-op"

/-- `encval <cfg…> <val>` : encode_value -/
def cmdEncVal (args : List String) : String :=
  match parseEncCfg args with
  | some (c, rest) =>
    (match parseVal rest with
     | some (v, []) =>
       (match Enc.encodeValue c v with
        | .ok t => "{\"ok\":" ++ jCps t ++ "}"
        | .error e => "{\"fail\":" ++ jEErr e ++ "}")
     | _ => "bad-op")
  | _ => "bad-op"

end Drv
