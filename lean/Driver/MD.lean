import PvlModel.Model.MultiDict
import Driver.Util
/-! `md` command: run an operation history on the two-representation model and on the
    list-of-pairs specification and print every observer after every step. -/
namespace Drv.MDrv
open Pvl.MD

abbrev K := Nat
abbrev V := Int

def showErr : Err → String
  | .key => "EK" | .index => "EI" | .type => "ET"

def showOut : Out K V → String
  | .none => "N"
  | .val v => s!"V{v}"
  | .pair (k, v) => s!"P{k}:{v}"
  | .err e => showErr e

def showItems (l : List (K × V)) : String :=
  "[" ++ ",".intercalate (l.map fun (k, v) => s!"{k}:{v}") ++ "]"

def showExV : Except Err V → String
  | .ok v => s!"V{v}" | .error e => showErr e
def showExL : Except Err (List V) → String
  | .ok l => "[" ++ ",".intercalate (l.map toString) ++ "]" | .error e => showErr e
def showExN : Except Err Nat → String
  | .ok n => toString n | .error e => showErr e

/-- Parse `n k v k v ...` pairs; returns pairs and rest. -/
partial def takePairs : Nat → List String → List (K × V) → Option (List (K × V) × List String)
  | 0, r, acc => some (acc.reverse, r)
  | n+1, k :: v :: r, acc =>
    match k.toNat?, v.toInt? with
    | some k, some v => takePairs n r ((k, v) :: acc)
    | _, _ => none
  | _, _, _ => none

def optV (s : String) : Option (Option V) :=
  if s == "-" then some none else (s.toInt?).map some

partial def parseOps : List String → List (Op K V) → Option (List (Op K V))
  | [], acc => some acc.reverse
  | "A" :: k :: v :: r, acc => do parseOps r (.append (← k.toNat?) (← v.toInt?) :: acc)
  | "E" :: n :: r, acc => do
      let (ps, r') ← takePairs (← n.toNat?) r []
      parseOps r' (.extend ps :: acc)
  | "I" :: i :: n :: r, acc => do
      let (ps, r') ← takePairs (← n.toNat?) r []
      parseOps r' (.insert (← i.toInt?) ps :: acc)
  | "IB" :: k :: inst :: n :: r, acc => do
      let (ps, r') ← takePairs (← n.toNat?) r []
      parseOps r' (.insertBefore (← k.toNat?) ps (← inst.toInt?) :: acc)
  | "IA" :: k :: inst :: n :: r, acc => do
      let (ps, r') ← takePairs (← n.toNat?) r []
      parseOps r' (.insertAfter (← k.toNat?) ps (← inst.toInt?) :: acc)
  | "S" :: k :: v :: r, acc => do parseOps r (.setitem (← k.toNat?) (← v.toInt?) :: acc)
  | "D" :: k :: r, acc => do parseOps r (.delitem (← k.toNat?) :: acc)
  | "P" :: r, acc => parseOps r (.pop :: acc)
  | "PK" :: k :: d :: r, acc => do parseOps r (.popKey (← k.toNat?) (← optV d) :: acc)
  | "PA" :: k :: d :: r, acc => do parseOps r (.popall (← k.toNat?) (← optV d) :: acc)
  | "PI" :: r, acc => parseOps r (.popitem :: acc)
  | "SD" :: k :: v :: r, acc => do parseOps r (.setdefault (← k.toNat?) (← v.toInt?) :: acc)
  | "U" :: n :: r, acc => do
      let (ps, r') ← takePairs (← n.toNat?) r []
      parseOps r' (.update ps :: acc)
  | "DC" :: k :: r, acc => do parseOps r (.discard (← k.toNat?) :: acc)
  | "C" :: r, acc => parseOps r (.clear :: acc)
  | _, _ => none

def obsModel (keys : List K) (s : OMD K V) : String :=
  showItems s.items ++ "|" ++ ";".intercalate (keys.map fun k =>
    s!"{k}={if contains s k then 1 else 0},{showExV (getitem s k)},{showExL (getall s k)},{showExN (keyIndex s k 0)},{showExN (keyIndex s k (-1))}")

def specGetitem (l : List (K × V)) (k : K) : Except Err V :=
  match Spec.first l k with | some v => .ok v | none => .error .key
def specGetall (l : List (K × V)) (k : K) : Except Err (List V) :=
  if Spec.hasKey l k then .ok (Spec.valuesOf l k) else .error .key

def obsSpec (keys : List K) (l : List (K × V)) : String :=
  showItems l ++ "|" ++ ";".intercalate (keys.map fun k =>
    s!"{k}={if Spec.hasKey l k then 1 else 0},{showExV (specGetitem l k)},{showExL (specGetall l k)},{showExN (Spec.keyIndex l k 0)},{showExN (Spec.keyIndex l k (-1))}")

def runModel (keys : List K) : OMD K V → List (Op K V) → List String
  | _, [] => []
  | s, op :: r =>
    let (s', o) := step s op
    (showOut o ++ "|" ++ obsModel keys s') :: runModel keys s' r

def runSpec (keys : List K) : List (K × V) → List (Op K V) → List String
  | _, [] => []
  | l, op :: r =>
    let (l', o) := Spec.step l op
    (showOut o ++ "|" ++ obsSpec keys l') :: runSpec keys l' r

/-- `md <nkeys> <ops...>`: keys are 0..nkeys-1. Output: `M <steps> ## S <steps>`. -/
def cmd (args : List String) : String :=
  match args with
  | nk :: rest =>
    match nk.toNat?, parseOps rest [] with
    | some nk, some ops =>
      let keys := List.range nk
      "M " ++ " # ".intercalate (runModel keys empty ops) ++ " ## S " ++
        " # ".intercalate (runSpec keys [] ops)
    | _, _ => "bad-op"
  | _ => "bad-op"

end Drv.MDrv
