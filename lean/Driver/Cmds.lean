import Driver.ValIO
/-! Commands for the CPython layer, decoder, token predicates, lexer and parser. -/
namespace Drv
open Pvl Pvl.Py

def jOptInt : Option Int → String
  | some i => "\"" ++ toString i ++ "\""
  | none => "null"

def jBool (b : Bool) : String := if b then "true" else "false"

def jExB : Except DErr Bool → String
  | .ok b => jBool b
  | .error .value => "\"ValueError\""

def cmdInt10 : List String → String
  | [s] => jOptInt (int10 (parseCps s))
  | _ => "bad-op"

def cmdIntBase : List String → String
  | [b, s] => match b.toNat? with
    | some b => jOptInt (intBase (parseCps s) b)
    | none => "bad-op"
  | _ => "bad-op"

def cmdFloat : List String → String
  | [s] => jBool (floatOk (parseCps s))
  | _ => "bad-op"

def cmdStrptime : List String → String
  | [s, f] => match strptime (parseCps s) (parseCps f) with
    | some d => s!"[{d.year},{d.month},{d.day},{d.hour},{d.minute},{d.second},{d.micro}]"
    | none => "null"
  | _ => "bad-op"

def cmdCasefoldEq : List String → String
  | [a, b] => jBool (foldEq (parseCps a) (parseCps b))
  | _ => "bad-op"

def cmdSplitWs : List String → String
  | [a] => "[" ++ ",".intercalate ((splitWs (parseCps a)).map jCps) ++ "]"
  | _ => "bad-op"

def withDec (gn dn : String) (k : Dec → String) : String :=
  match grammarOf gn, decKindOf dn with
  | some g, some d => k ⟨g, d⟩
  | _, _ => "bad-op"

def jExVal : Except DErr Val → String
  | .ok v => jVal v
  | .error .value => "{\"err\":\"ValueError\"}"

def cmdDecode : List String → String
  | [gn, dn, s] => withDec gn dn fun d => jExVal (decodeSimple d (parseCps s))
  | _ => "bad-op"

def cmdDatetime : List String → String
  | [gn, dn, s] => withDec gn dn fun d => jExVal (decodeDatetime d (parseCps s))
  | _ => "bad-op"

def cmdTokPred : List String → String
  | [gn, dn, s] => withDec gn dn fun d =>
    let t := parseCps s
    let g := d.g
    "{" ++ ",".intercalate [
      "\"comment\":" ++ jBool (Tok.isComment g t),
      "\"space\":" ++ jBool (Tok.isSpace g t),
      "\"wsc\":" ++ jBool (Tok.isWSC g t),
      "\"delimiter\":" ++ jBool (Tok.isDelimiter g t),
      "\"begin\":" ++ jBool (Tok.isBeginAggregation g t),
      "\"end\":" ++ jBool (Tok.isEndStatement g t),
      "\"quoted\":" ++ jBool (Tok.isQuotedString d t),
      "\"decimal\":" ++ jBool (Tok.isDecimal t),
      "\"nondecimal\":" ++ jBool (Tok.isNonDecimal d t),
      "\"numeric\":" ++ jBool (Tok.isNumeric d t),
      "\"datetime\":" ++ jBool (Tok.isDatetime d t),
      "\"unquoted\":" ++ jBool (Tok.isUnquotedString d t),
      "\"parameter\":" ++ jBool (Tok.isParameterName d t),
      "\"simple\":" ++ jBool (Tok.isSimpleValue d t)] ++ "}"
  | _ => "bad-op"

def cmdLex : List String → String
  | [gn, dn, s] => withDec gn dn fun d =>
    let doc := parseCps s
    let (toks, tail) := lexAll d.g d doc
    let tl := match tail with
      | .eof => "\"eof\""
      | .lexerr p => jPErr doc (.lexer p)
    "{\"tokens\":[" ++ ",".intercalate (toks.map fun t => s!"[{jCps t.text},{t.pos},{t.last}]") ++
      "],\"tail\":" ++ tl ++ "}"
  | _ => "bad-op"

def parseIntList (s : String) : List Int :=
  if s == "-" then [] else (s.splitOn ",").filterMap String.toInt?

/-- `parse <grammar> <decoder> <parser> <prior-errors> <text>` -/
def cmdParse : List String → String
  | [gn, dn, pn, prior, s] =>
    match grammarOf gn, decKindOf dn, parserKindOf pn with
    | some g, some dk, some pk =>
      let text := parseCps s
      let r := parseWith g ⟨g, dk⟩ pk (parseIntList prior) text
      let doc := if pk == .omni then omniPrepass text else text
      let errs := "[" ++ ",".intercalate (r.errors.map toString) ++ "],\"sites\":[" ++
        ",".intercalate (r.sites.map fun x => "\"" ++ x ++ "\"") ++ "],\"examined\":" ++
        (match r.last with | some t => toString t.last | none => "-1") ++
        ",\"exhausted\":" ++ (if r.exhausted then "true" else "false") ++
        ",\"sane\":" ++ (if saneToks g ⟨g, dk⟩ (lexAll g ⟨g, dk⟩ doc).1 then "true" else "false")
      match r.outcome with
      | .ok items =>
        "{\"ok\":" ++ jVal (.cont .module items) ++ ",\"errors\":" ++ errs ++ "}"
      | .error e => "{\"fail\":" ++ jPErr doc e ++ ",\"errors\":" ++ errs ++ "}"
    | _, _, _ => "bad-op"
  | _ => "bad-op"

def cmdPrepass : List String → String
  | [s] => jCps (omniPrepass (parseCps s))
  | _ => "bad-op"

def cmdAllowed : List String → String
  | [gn, c] => match grammarOf gn, c.toNat? with
    | some g, some c => jBool (charAllowed g c)
    | _, _ => "bad-op"
  | _ => "bad-op"

end Drv
