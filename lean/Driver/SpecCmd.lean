import PvlModel.Model.Spec
import Driver.ValIO
/-! `specload` (specification applied to a text) and `spec` (to harness-classified tokens). -/
namespace Drv
open Pvl Pvl.Spec

partial def jSVal : SVal → String
  | .tok i => s!"\{\"tok\":{i}}"
  | .seq l => "{\"seq\":[" ++ ",".intercalate (l.map jSVal) ++ "]}"
  | .set l => "{\"set\":[" ++ ",".intercalate (l.map jSVal) ++ "]}"
  | .units v j => "{\"units\":" ++ jSVal v ++ s!",\"u\":{j}}"
  | .missing e => s!"\{\"missing\":{e}}"

partial def jSItem : SItem → String
  | .assign n v => s!"\{\"assign\":{n},\"v\":" ++ jSVal v ++ "}"
  | .block g n items => s!"\{\"block\":{n},\"grp\":{if g then "true" else "false"},\"items\":[" ++
      ",".intercalate (items.map jSItem) ++ "]}"

def parseSTok (s : String) : Option STok :=
  match s with
  | "EQ" => some .eq | "SEMI" => some .semi | "COMMA" => some .comma
  | "LP" => some .lpar | "RP" => some .rpar | "LB" => some .lbrace | "RB" => some .rbrace
  | "U" => some .units | "BG" => some (.beginKw true) | "BO" => some (.beginKw false)
  | "EG" => some (.endKw true) | "EO" => some (.endKw false) | "END" => some .endStmt
  | "J" => some .junk | "V1" => some (.val true) | "V0" => some (.val false)
  | _ => if s.startsWith "W1:" then some (.word (parseCps (s.drop 3).toString) true)
         else if s.startsWith "W0:" then some (.word (parseCps (s.drop 3).toString) false)
         else if s.startsWith "n" then some (.nameOnly (parseCps (s.drop 1).toString)) else none

/-- `spec <omni 0/1> <odlUnits 0/1> <stok>*` -/
def cmdSpec : List String → String
  | o :: u :: toks =>
    match toks.mapM parseSTok with
    | some l =>
      (match sModule ⟨o == "1", u == "1"⟩ (index l) with
       | some tree => "[" ++ ",".intercalate (tree.map jSItem) ++ "]"
       | none => "\"ILL\"")
    | none => "bad-op"
  | _ => "bad-op"

/-- `specload <grammar> <decoder> <parser> <text>` -/
def cmdSpecLoad : List String → String
  | [gn, dn, pn, s] =>
    match grammarOf gn, decKindOf dn, parserKindOf pn with
    | some g, some dk, some pk =>
      (match specLoad ⟨g, dk⟩ pk (parseCps s) with
       | some items => "{\"ok\":" ++ jVal (.cont .module items) ++ "}"
       | none => "\"ILL\"")
    | _, _, _ => "bad-op"
  | _ => "bad-op"

end Drv
